------------------------------ MODULE Entry ------------------------------
(***************************************************************************)
(* Reference model for C15: what a client must make of a SearchResultEntry *)
(* (RFC 4511 section 4.5.2) when it offers a "text" and a "binary" view of *)
(* the attribute values, as documented for ldap3::SearchEntry:             *)
(*   - an attribute all of whose values are well-formed UTF-8 is a text    *)
(*     attribute and keeps its values in the order received;               *)
(*   - any other attribute is a binary attribute and keeps exactly the     *)
(*     multiset of its values (a SET OF has no order to preserve).         *)
(* Written from RFC 4511, RFC 4512 (attribute descriptions) and the        *)
(* Unicode Standard chapter 3 (D92, tables 3-6 and 3-7), not from the Rust *)
(* code.  A byte is a natural 0..255, a string a sequence of bytes.        *)
(*                                                                         *)
(* An attribute is a record [t: bytes (the attribute description),         *)
(*                           vals: sequence of byte strings].              *)
(***************************************************************************)
EXTENDS Ber, FiniteSets

(***************************************************************************)
(* UTF-8 well-formedness, Unicode Standard table 3-7 ("Well-Formed UTF-8   *)
(* Byte Sequences"):                                                       *)
(*   U+0000..U+007F      00..7F                                            *)
(*   U+0080..U+07FF      C2..DF 80..BF                                     *)
(*   U+0800..U+0FFF      E0     A0..BF 80..BF                              *)
(*   U+1000..U+CFFF      E1..EC 80..BF 80..BF                              *)
(*   U+D000..U+D7FF      ED     80..9F 80..BF                              *)
(*   U+E000..U+FFFF      EE..EF 80..BF 80..BF                              *)
(*   U+10000..U+3FFFF    F0     90..BF 80..BF 80..BF                       *)
(*   U+40000..U+FFFFF    F1..F3 80..BF 80..BF 80..BF                       *)
(*   U+100000..U+10FFFF  F4     80..8F 80..BF 80..BF                       *)
(* Everything else is ill-formed: C0, C1 (overlong 2-byte), E0 80..9F and  *)
(* F0 80..8F (overlong), ED A0..BF (surrogates), F4 90.. and F5..FF        *)
(* (beyond U+10FFFF), a continuation byte 80..BF where a lead is expected, *)
(* and a sequence cut short by the end of the string or by a non-          *)
(* continuation byte.                                                      *)
(***************************************************************************)
(* Length of the well-formed byte sequence (one row of table 3-7) that    *)
(* starts at position p of s; 0 if none does.                              *)
SeqLenAt(s, p) ==
  LET b == s[p]
      (* byte i after the lead exists and lies in lo..hi *)
      In(i, lo, hi) == p + i <= Len(s) /\ s[p + i] >= lo /\ s[p + i] <= hi
      Cont(i) == In(i, 128, 191)
  IN
    IF b <= 127 THEN 1
    ELSE IF b >= 194 /\ b <= 223 THEN (IF Cont(1) THEN 2 ELSE 0)
    ELSE IF b = 224 THEN (IF In(1, 160, 191) /\ Cont(2) THEN 3 ELSE 0)
    ELSE IF (b >= 225 /\ b <= 236) \/ b = 238 \/ b = 239 THEN (IF Cont(1) /\ Cont(2) THEN 3 ELSE 0)
    ELSE IF b = 237 THEN (IF In(1, 128, 159) /\ Cont(2) THEN 3 ELSE 0)
    ELSE IF b = 240 THEN (IF In(1, 144, 191) /\ Cont(2) /\ Cont(3) THEN 4 ELSE 0)
    ELSE IF b >= 241 /\ b <= 243 THEN (IF Cont(1) /\ Cont(2) /\ Cont(3) THEN 4 ELSE 0)
    ELSE IF b = 244 THEN (IF In(1, 128, 143) /\ Cont(2) /\ Cont(3) THEN 4 ELSE 0)
    ELSE 0              \* 80..BF, C0, C1, F5..FF

IsTrail(b) == b >= 128 /\ b <= 191

(* A string is well-formed iff it is covered by such sequences.  Since the *)
(* trail bytes of every row are 80..BF and no lead byte is, this can be    *)
(* said position by position (no recursion, so it scales to long values):  *)
(* every byte is either the lead of a well-formed sequence or a trail byte *)
(* of one that started at most three positions earlier.                    *)
WellFormedUtf8(bytes) ==
  \A p \in DOMAIN bytes :
     IF IsTrail(bytes[p])
       THEN \E k \in 1..3 : p - k >= 1 /\ SeqLenAt(bytes, p - k) > k
       ELSE SeqLenAt(bytes, p) > 0

(* The same, as a walk from left to right; MCEntry checks the agreement.   *)
RECURSIVE WalkFrom(_, _)
WalkFrom(s, p) == IF p > Len(s) THEN TRUE
                  ELSE LET n == SeqLenAt(s, p) IN n > 0 /\ WalkFrom(s, p + n)
Utf8Walk(bytes) == WalkFrom(bytes, 1)

(***************************************************************************)
(* The same notion from the definition instead of the derived table:       *)
(* D92 / table 3-6 (bit distribution) - a string is well-formed UTF-8 iff  *)
(* it is a concatenation of the encodings of Unicode scalar values, each   *)
(* in its shortest form.  MCEntry checks that all three formulations agree *)
(* on every string over a boundary alphabet.                               *)
(***************************************************************************)
ScalarValue(cp) == (cp >= 0 /\ cp <= 55295) \/ (cp >= 57344 /\ cp <= 1114111)

Utf8Enc(cp) ==
  IF cp < 128 THEN <<cp>>
  ELSE IF cp < 2048 THEN <<192 + (cp \div 64), 128 + (cp % 64)>>
  ELSE IF cp < 65536 THEN <<224 + (cp \div 4096), 128 + ((cp \div 64) % 64), 128 + (cp % 64)>>
  ELSE <<240 + (cp \div 262144), 128 + ((cp \div 4096) % 64), 128 + ((cp \div 64) % 64), 128 + (cp % 64)>>

RECURSIVE ByDefFrom(_, _)
ByDefFrom(s, p) ==
  IF p > Len(s) THEN TRUE ELSE
  LET b == s[p]
      n == IF b < 128 THEN 1                          \* 0xxxxxxx
           ELSE IF b >= 192 /\ b <= 223 THEN 2        \* 110xxxxx
           ELSE IF b >= 224 /\ b <= 239 THEN 3        \* 1110xxxx
           ELSE IF b >= 240 /\ b <= 247 THEN 4        \* 11110xxx
           ELSE 0                                     \* 10xxxxxx or 11111xxx: not a lead
  IN /\ n > 0
     /\ p + n - 1 <= Len(s)
     /\ \A i \in 1..(n - 1) : s[p + i] >= 128 /\ s[p + i] <= 191      \* 10xxxxxx
     /\ LET cp == CASE n = 1 -> b
                    [] n = 2 -> (b - 192) * 64 + (s[p + 1] - 128)
                    [] n = 3 -> (b - 224) * 4096 + (s[p + 1] - 128) * 64 + (s[p + 2] - 128)
                    [] n = 4 -> (b - 240) * 262144 + (s[p + 1] - 128) * 4096 + (s[p + 2] - 128) * 64 + (s[p + 3] - 128)
        IN ScalarValue(cp) /\ Utf8Enc(cp) = SubSeq(s, p, p + n - 1)   \* a scalar value, in shortest form
     /\ ByDefFrom(s, p + n)

Utf8ByDefinition(bytes) == ByDefFrom(bytes, 1)

(***************************************************************************)
(* Bags (multisets) of values as functions value -> positive count.        *)
(***************************************************************************)
Range(q) == {q[i] : i \in DOMAIN q}
BagOf(q) == [v \in Range(q) |-> Cardinality({i \in DOMAIN q : q[i] = v})]

(***************************************************************************)
(* Construct: the text / binary view of an entry.                          *)
(*   text: sequence of [t, vals]  (vals: the values, in order)             *)
(*   bin : sequence of [t, vals]  (vals: the bag of the values)            *)
(* Both keep the relative order of the attributes of the entry; consumers  *)
(* that hold them in unordered maps compare them as sets.                  *)
(***************************************************************************)
AllText(vals) == \A i \in DOMAIN vals : WellFormedUtf8(vals[i])

IsTextAttr(a) == AllText(a.vals)
IsBinAttr(a)  == ~AllText(a.vals)

Construct(dn, attrs) ==
  LET ta == SelectSeq(attrs, IsTextAttr)
      ba == SelectSeq(attrs, IsBinAttr)
  IN [dn   |-> dn,
      text |-> [i \in 1..Len(ta) |-> [t |-> ta[i].t, vals |-> ta[i].vals]],
      bin  |-> [i \in 1..Len(ba) |-> [t |-> ba[i].t, vals |-> BagOf(ba[i].vals)]]]

(***************************************************************************)
(* Which entries the property speaks about ("every well-formed search      *)
(* entry").  RFC 4511: LDAPDN and AttributeDescription are UTF-8 strings;  *)
(* RFC 4512 2.5: attributedescription = oid *( ";" 1*keychar ), oid =      *)
(* descr / numericoid; an entry holds each attribute description once      *)
(* (descriptions are case-insensitive).  For anything else the model says  *)
(* nothing (either behaviour conforms).  For the DN only UTF-8             *)
(* well-formedness is required here; the generators produce RFC 4514 DNs.  *)
(***************************************************************************)
Alpha(b)   == (b >= 65 /\ b <= 90) \/ (b >= 97 /\ b <= 122)
Digit(b)   == b >= 48 /\ b <= 57
KeyChar(b) == Alpha(b) \/ Digit(b) \/ b = 45
Semi == 59   Dot == 46

(* positions of ";" in s, and the pieces between them *)
IsKeyString(s) == s # <<>> /\ Alpha(s[1]) /\ \A i \in DOMAIN s : KeyChar(s[i])
IsNumericOid(s) ==
  /\ s # <<>> /\ Digit(s[1]) /\ Digit(s[Len(s)])
  /\ \A i \in DOMAIN s : Digit(s[i]) \/ s[i] = Dot
  /\ \E i \in DOMAIN s : s[i] = Dot
  /\ \A i \in 1..(Len(s) - 1) : ~(s[i] = Dot /\ s[i + 1] = Dot)
  /\ \A i \in DOMAIN s :                                   \* no leading zero in a multi-digit number
       (s[i] = 48 /\ (i = 1 \/ s[i - 1] = Dot)) => (i = Len(s) \/ s[i + 1] = Dot)
IsOption(s) == s # <<>> /\ \A i \in DOMAIN s : KeyChar(s[i])

IsAttrDescription(s) ==
  LET semis == {i \in DOMAIN s : s[i] = Semi}
      first == IF semis = {} THEN Len(s) + 1 ELSE CHOOSE i \in semis : \A j \in semis : i <= j
      oid   == SubSeq(s, 1, first - 1)
      (* every option: the piece after a ";" up to the next ";" or the end *)
      OptAt(i) == LET nxt == {j \in semis : j > i}
                      e == IF nxt = {} THEN Len(s) + 1 ELSE CHOOSE j \in nxt : \A k \in nxt : j <= k
                  IN SubSeq(s, i + 1, e - 1)
  IN /\ IsKeyString(oid) \/ IsNumericOid(oid)
     /\ \A i \in semis : IsOption(OptAt(i))

Fold1(b) == IF b >= 65 /\ b <= 90 THEN b + 32 ELSE b
FoldCase(s) == [i \in DOMAIN s |-> Fold1(s[i])]

InScope(dn, attrs) ==
  /\ WellFormedUtf8(dn)
  /\ \A i \in DOMAIN attrs : IsAttrDescription(attrs[i].t)
  /\ \A i, j \in DOMAIN attrs : i # j => FoldCase(attrs[i].t) # FoldCase(attrs[j].t)

(***************************************************************************)
(* RFC 4511 4.5.2:                                                         *)
(*   SearchResultEntry ::= [APPLICATION 4] SEQUENCE {                      *)
(*        objectName LDAPDN, attributes PartialAttributeList }             *)
(*   PartialAttributeList ::= SEQUENCE OF PartialAttribute                 *)
(*   PartialAttribute ::= SEQUENCE { type AttributeDescription,            *)
(*                                   vals SET OF value AttributeValue }    *)
(* LDAPDN, AttributeDescription, AttributeValue are OCTET STRINGs.         *)
(* Identifier octet 0x64 = APPLICATION, constructed, number 4.             *)
(***************************************************************************)
AttrTree(a) == TSeq(<<TOct(a.t), TSet([j \in 1..Len(a.vals) |-> TOct(a.vals[j])])>>)
EntryTree(dn, attrs) ==
  Cons(Application, 4, <<TOct(dn), TSeq([i \in 1..Len(attrs) |-> AttrTree(attrs[i])])>>)
EntryBytes(dn, attrs) == Enc(EntryTree(dn, attrs))
=============================================================================
