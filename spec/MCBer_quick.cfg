SPECIFICATION Spec
CONSTANTS
  LeafClasses = {0, 1, 2, 3}
  LeafNums = {0, 2, 4, 30}
  NodeClasses = {0, 1, 2, 3}
  NodeNums = {0, 16, 17, 30}
  PayloadLens = {0, 1, 2, 125, 126, 127, 128, 129, 252, 253, 255, 256}
  GrowLens = {125, 126, 252, 253}
  SmallLens = {0, 1}
  OuterShapes <- OuterShapes2
  MaxDepth = 2
  IntBytes = {0, 1, 127, 128, 255}
  Lens = {0, 1, 126, 127, 128, 129, 254, 255, 256, 257, 65534, 65535, 65536, 65537, 16777215, 16777216, 16777217}
  EmitVectors = TRUE
INVARIANTS RoundTrip AltsDecode EncIsAnAlt LenMinimal IntLaws BoolLaw Emit
CHECK_DEADLOCK FALSE
