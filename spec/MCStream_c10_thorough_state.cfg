SPECIFICATION Spec
CONSTANTS
  StaleResultAfterSplice = FALSE
  Envs <- C10StateEnvs
  SearchEnvs <- NoEnvs
  Alphabet <- AlphaNFS
  MaxCalls = 6
  Plans <- NoPlans
INVARIANTS ItemsLaw FinishLaw StateLaw PagingLaw SearchLaw NoPanic Emit
CHECK_DEADLOCK FALSE
