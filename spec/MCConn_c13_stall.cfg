SPECIFICATION Spec
CONSTANTS
  Ops = {"o1", "o2"}
  NoOp = "none"
  MaxId = 4
  Last0 <- LastZero
  MaxItems = 1
  ItemTypes <- EntOnly
  MaxOrphans = 0
  Kinds <- KindsNoUnb
  Tmo = {0, 2}
  Horizon = 0
  AllowFaults = FALSE
  OpenGarbage = FALSE
  AdapterErrors = FALSE
  AllowCancel = FALSE
  AllowStall = TRUE
  AbstractTime = TRUE
  LeakSearchIdOnDone = FALSE
  AbandonKeepsTargetId = FALSE
  DirectStaysActive = FALSE
  StaleInsertAfterScrub = FALSE
INVARIANTS TypeOK NoLeak MapsSubsetUsed

CHECK_DEADLOCK FALSE
