--------------------------- MODULE TraceEscape ---------------------------
(* C09, implementation -> specification.  Every record is a value v and    *)
(* what the real functions returned for it:                                *)
(*   fe = ldap_escape(v), un = ldap_unescape(fe) (un_ok: returned Ok),     *)
(*   filt = BER of parse_filter("(a=" fe ")") (filt_ok: returned Ok),      *)
(*   de = dn_escape(v).                                                    *)
(* The laws of Escape are evaluated on fe / de with the specification's    *)
(* own RFC 4515 / 4514 parsers, so the escaping style is free.  The same   *)
(* module checks the records for the values MCEscape enumerated and the    *)
(* records for seeded random Unicode strings.  One state per record; for   *)
(* a rejected record <<"BADREC", l>> and one <<"BADLAW", l, law>> per      *)
(* failed law are printed.                                                 *)
EXTENDS Escape, Ber, TLC, Json, IOUtils

Rec == ndJsonDeserialize(IOEnv.TRACE)
VARIABLE l

(* RFC 4511 4.5.1: equalityMatch [3] AttributeValueAssertion = SEQUENCE { attributeDesc OCTET STRING, value OCTET STRING },
   implicit tagging *)
EqualityMatch(attr, val) == Cons(Context, 3, <<TOct(attr), TOct(val)>>)

Laws(e) ==
  << <<"L1-filter-structure",  FilterInert(e.v, e.fe)>>,
     <<"L1-parse_filter-ber",  /\ e.filt_ok
                               /\ e.filt = Enc(EqualityMatch(<<97>>, e.v))
                               /\ DecOne(e.filt).ok /\ DecOne(e.filt).t = EqualityMatch(<<97>>, e.v)>>,
     <<"L2-rfc4515-unescape",  UnescapeInert(e.v, e.fe)>>,
     <<"L2-ldap_unescape",     e.un_ok /\ e.un = e.v>>,
     <<"L3-dn-structure",      DnInert(e.v, e.de)>>,
     <<"L4-filter-unchanged",  FilterUnchanged(e.v, e.fe)>>,
     <<"L4-dn-unchanged",      DnUnchanged(e.v, e.de)>> >>

Check(e) ==
  LET ls  == Laws(e)
      bad == {i \in 1..Len(ls) : ~ls[i][2]}
  IN  bad = {} \/ (PrintT(<<"BADREC", l>>) /\ \A i \in bad : PrintT(<<"BADLAW", l, ls[i][1]>>))

Init == l = 1
Next == /\ l <= Len(Rec) /\ l' = l + 1
        /\ Check(Rec[l])
Spec == Init /\ [][Next]_l
Accepted == IF TLCGet("stats").diameter - 1 = Len(Rec) THEN TRUE
            ELSE Print(<<"TRACE-NOT-CONSUMED", TLCGet("stats").diameter, Len(Rec)>>, FALSE)
=============================================================================
