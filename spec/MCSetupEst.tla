----------------------------- MODULE MCSetupEst -----------------------------
(* C17: the establishment machine of Setup model-checked for all adversary  *)
(* scripts x (ldaps | ldap+StartTLS) x (verify on/off) x (custom connector  *)
(* trusting the test CA | default connector) x (conn_timeout none | short), *)
(* over every sequence of observable events (including the ones only a      *)
(* broken client would produce: those have no transition).  One vector per  *)
(* (configuration, script) with the set of results Verdict allows.          *)
EXTENDS Setup, TLC, Json

CONSTANTS XModes, XVerify, XConnectors, XTimeouts, XVias, XHosts, XStores,
          XResps, XRcs, XInjs, XHss,
          XFaultHss          \* handshake behaviours offered after a refusal / garbage / wrong-ID reply
VARIABLES cfg, sc, s
vars == <<cfg, sc, s>>

(* the base configurations (DNS name, system trust store) in full; the other addressing / trust-store combinations for the
   dialled connection only *)
Base(c) == c.host = "name" /\ c.store = "system" /\ c.via # "unix"
(* a URL without a host has no port either: it only makes sense over a pre-connected stream *)
XCfgs == {c \in [mode : XModes, verify : XVerify, connector : XConnectors, timeout : XTimeouts, via : XVias, host : XHosts, store : XStores] :
            \/ Base(c)
            \/ c.via = "dial" /\ c.host # "absent"
            \/ c.via = "unix" /\ c.host = "name" /\ c.store = "system"
            \/ c.host = "absent" /\ c.via \in {"stream-last", "stream-first"} /\ c.store = "system"}
XScripts(c) == {x \in Scripts :
                  /\ ScriptFor(c, x)
                  /\ x.resp \in XResps \cup {"na"} /\ x.inj \in XInjs /\ x.hs \in XHss
                  /\ x.rc \in XRcs \cup {0}
                  /\ (x.resp \in {"refuse", "garbage", "wrongid"} => x.hs \in XFaultHss)
                  /\ (x.resp \in {"close", "hangup", "stall"} => x.hs = "trusted")      \* never reached
                  (* off the base: the scripts in which a certificate is judged, and the honest refusal *)
                  /\ (Base(c) \/ (x.hs \in Certs /\ x.inj = "none" /\ x.resp \in {"na", "success", "refuse"}))
                  /\ (c.via = "unix" => (x.hs = "trusted" /\ x.resp \in {"na", "success"}))}

Alphabet ==
  {[e |-> "accept"], [e |-> "hello"]}
  \cup {[e |-> "clear", k |-> k] : k \in {"starttls", "bind", "unbind", "other", "junk"}}
  \cup {[e |-> "result", r |-> r, late |-> l, held |-> h] : r \in {"ok", "err", "pending", "panic"}, l \in BOOLEAN, h \in {0, 1}}
  \cup {[e |-> "bindseen", ch |-> c] : c \in {"tls", "clear"}}
  \cup {[e |-> "bindresult", rc |-> n] : n \in {0, 49, 99}}

Init == /\ cfg \in XCfgs /\ sc \in XScripts(cfg) /\ s = EInit
Next == /\ \E ev \in Alphabet : \E t \in Step(cfg, sc, s, ev) : s' = t
        /\ UNCHANGED <<cfg, sc>>
Spec == Init /\ [][Next]_vars

Inv ==
  /\ s.phase \in Phases
  /\ NoCleartextLdap(cfg, s)
  /\ ReadyImpliesProtected(cfg, s)
  /\ InjectedNeverParsed(cfg, s)
  /\ TimeoutBoundsAll(cfg, s)
  /\ FaultsFail(cfg, sc, s)
  /\ EstablishedClean(s)

(* states reachable for one script; Verdict is tight: every result it       *)
(* allows is reachable, and nothing else is                                 *)
RECURSIVE Closure(_, _, _, _)
Closure(c, x, seen, front) ==
  IF front = {} THEN seen
  ELSE LET nxt == UNION {UNION {Step(c, x, y, ev) : ev \in Alphabet} : y \in front} \ seen
       IN Closure(c, x, seen \cup nxt, nxt)
ResultOf(st) == CASE st.phase = "Bound" -> "ok" [] st.phase = "Failed" -> "err" [] st.phase = "Pending" -> "pending"
VerdictTight ==
  s = EInit =>
    LET R == Closure(cfg, sc, {EInit}, {EInit}) IN
    /\ {ResultOf(st) : st \in {y \in R : Final(y)}} = Verdict(cfg, sc)
    (* every non-final state can still move: the machine never asks for an event that cannot come *)
    /\ \A y \in R : Final(y) \/ \E ev \in Alphabet : Step(cfg, sc, y, ev) # {}
    /\ Verdict(cfg, sc) # {}

Emit == s = EInit => PrintT(<<"VEC", ToJson([cfg |-> cfg, script |-> sc, verdict |-> Verdict(cfg, sc)])>>)
=============================================================================
