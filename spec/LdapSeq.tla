------------------------------- MODULE LdapSeq -------------------------------
(***************************************************************************)
(* One Ldap handle used sequentially (C02, second sentence; DESIGN 3.3).   *)
(*                                                                         *)
(* The handle carries three per-operation modifiers: request controls, a   *)
(* timeout, search options.  The documentation of with_controls /          *)
(* with_timeout / with_search_options says each applies to "the next       *)
(* operation"; with_search_options adds that before a non-Search operation *)
(* the options "will be silently discarded when the operation is invoked". *)
(* So: Call(op, a) sends the PDU Ldap4511!Request built with exactly the   *)
(* modifiers set since the previous call, and clears all three - whatever  *)
(* the operation is and whether or not it reaches the wire.                *)
(*                                                                         *)
(* The two deviation constants describe known ways an implementation may   *)
(* fall short; FALSE = the property.                                       *)
(*   SoptsSurviveNonSearch  a non-Search operation leaves the search       *)
(*                          options in place for a later Search            *)
(*   ModsSurviveLocalError  an add/modify rejected before anything is sent *)
(*                          (an attribute to add without values) leaves    *)
(*                          all three modifiers in place                   *)
(*                                                                         *)
(* A call is (op, a, srv): srv in {"answer", "silent"} is what the server  *)
(* does with the request.  Outcomes: "answered", "timeout" (silent server, *)
(* timeout set: the call fails after exactly the timeout), "hang" (silent  *)
(* server, no timeout), "null" (abandon/unbind: nothing to wait for),      *)
(* "local-error" (rejected before anything is sent; no message ID used).   *)
(***************************************************************************)
EXTENDS Ldap4511

CONSTANTS SoptsSurviveNonSearch, ModsSurviveLocalError

(* SearchOptions::new(): never dereference, attributes with values, no limits *)
DefaultSopts == [deref |-> "Never", typesonly |-> FALSE, size |-> 0, time |-> 0]
NoMods == [hasc |-> FALSE, c |-> <<>>, hast |-> FALSE, t |-> 0, hass |-> FALSE, s |-> DefaultSopts]

(* w = [what |-> "controls", c] | [what |-> "timeout", ms] | [what |-> "sopts", s]; a later one of the same kind replaces *)
ApplyWith(m, w) == CASE w.what = "controls" -> [m EXCEPT !.hasc = TRUE, !.c = w.c]
                     [] w.what = "timeout"  -> [m EXCEPT !.hast = TRUE, !.t = w.ms]
                     [] w.what = "sopts"    -> [m EXCEPT !.hass = TRUE, !.s = w.s]
RECURSIVE ApplyWiths(_, _)
ApplyWiths(m, ws) == IF ws = <<>> THEN m ELSE ApplyWiths(ApplyWith(m, Head(ws)), Tail(ws))

HasResponse(op) == RespTag(op) # 0
(* documented local rejections: Add (or a Modify "add") of an attribute without values; an unparsable filter *)
LocalReject(op, a) ==
  \/ op = "add" /\ \E i \in 1..Len(a.attrs) : a.attrs[i].vals = <<>>
  \/ op = "modify" /\ \E i \in 1..Len(a.mods) : a.mods[i].kind = "Add" /\ a.mods[i].vals = <<>>
  \/ op = "search" /\ ~F!Parse(a.filter).ok
(* sequential use, every earlier operation finished: the next free ID is the successor, 2^31-1 wraps to 1 *)
NextId(l) == IF l = MaxId THEN 1 ELSE l + 1
(* a search is called with (base, scope, filter, attrs); the rest of the SearchRequest comes from the options *)
FullArgs(op, a, m) ==
  IF op = "search"
  THEN LET s == IF m.hass THEN m.s ELSE DefaultSopts IN
       [base |-> a.base, scope |-> a.scope, filter |-> a.filter, attrs |-> a.attrs,
        deref |-> s.deref, typesonly |-> s.typesonly, size |-> s.size, time |-> s.time]
  ELSE a
SoptsOf(a) == [deref |-> a.deref, typesonly |-> a.typesonly, size |-> a.size, time |-> a.time]

NoRes(op, a) == [haswire |-> FALSE, op |-> op, id |-> 0, a |-> a, some |-> FALSE, ctrls |-> <<>>, out |-> "local-error", tmo |-> 0]

(* st = [mods, last, closed]  ->  [mods, last, closed, res]; devS / devL = the two deviations *)
CallStep(st, op, a, srv, devS, devL) ==
  IF LocalReject(op, a) THEN
       [mods |-> IF devL /\ op \in {"add", "modify"} THEN st.mods ELSE NoMods,
        last |-> st.last, closed |-> st.closed, res |-> NoRes(op, a)]
  ELSE LET m   == st.mods
           id  == NextId(st.last)
           out == IF ~HasResponse(op) THEN "null" ELSE IF srv = "answer" THEN "answered"
                  ELSE IF m.hast THEN "timeout" ELSE "hang"
       IN [mods |-> IF devS /\ op # "search" THEN [NoMods EXCEPT !.hass = m.hass, !.s = m.s] ELSE NoMods,
           last |-> id, closed |-> (st.closed \/ op = "unbind"),
           res |-> [haswire |-> TRUE, op |-> op, id |-> id, a |-> FullArgs(op, a, m), some |-> m.hasc,
                    ctrls |-> IF m.hasc THEN m.c ELSE <<>>, out |-> out, tmo |-> IF out = "timeout" THEN m.t ELSE 0]]

(* a round = [ws, op, a, srv, clone]: some With* calls on the handle, then the operation - on the handle itself, or
   (clone = TRUE) on a clone of it made at that moment.  A clone is a new handle on the same connection: it shares the
   message-ID allocator and nothing else, so the operation goes out without any modifier and the handle's own modifiers
   stay pending for the next operation invoked on the handle *)
OnClone(r) == "clone" \in DOMAIN r /\ r.clone
RoundStep(st, r, devS, devL) ==
  LET st1 == [st EXCEPT !.mods = ApplyWiths(st.mods, r.ws)] IN
  IF OnClone(r) THEN [CallStep([st1 EXCEPT !.mods = NoMods], r.op, r.a, r.srv, devS, devL) EXCEPT !.mods = st1.mods]
  ELSE CallStep(st1, r.op, r.a, r.srv, devS, devL)
RECURSIVE RunRounds(_, _, _, _)
RunRounds(st, rs, devS, devL) ==
  IF rs = <<>> THEN <<>>
  ELSE LET n == RoundStep(st, Head(rs), devS, devL) IN
       <<n.res>> \o RunRounds([mods |-> n.mods, last |-> n.last, closed |-> n.closed], Tail(rs), devS, devL)
Fresh(start) == [mods |-> NoMods, last |-> start, closed |-> FALSE]

(* ------------------------------ the state machine ------------------------------ *)
VARIABLES mods,      \* modifiers that will apply to the next call
          last,      \* last message ID used on the connection
          closed,    \* an Unbind has been sent
          pend,      \* ghost: the modifiers set explicitly since the previous call
          lastcall   \* [valid, set (pend when it was made), srv, res (the PDU model and the outcome)]
seqvars == <<mods, last, closed, pend, lastcall>>

SeqInit(start) == /\ mods = NoMods /\ last = start /\ closed = FALSE /\ pend = NoMods /\ lastcall = [valid |-> FALSE]
Init == SeqInit(0)
(* a new handle on a new connection whose allocator stands at `start` *)
Reset(start) == /\ mods' = NoMods /\ last' = start /\ closed' = FALSE /\ pend' = NoMods /\ lastcall' = [valid |-> FALSE]

With(w) == /\ ~closed
           /\ mods' = ApplyWith(mods, w) /\ pend' = ApplyWith(pend, w)
           /\ UNCHANGED <<last, closed, lastcall>>
WithControls(c)      == With([what |-> "controls", c |-> c])
WithTimeout(ms)      == With([what |-> "timeout", ms |-> ms])
WithSearchOptions(s) == With([what |-> "sopts", s |-> s])

Here == [mods |-> mods, last |-> last, closed |-> closed]
Install(n, set, srv) == /\ mods' = n.mods /\ last' = n.last /\ closed' = n.closed /\ pend' = NoMods
                        /\ lastcall' = [valid |-> TRUE, set |-> set, srv |-> srv, res |-> n.res]
Call(op, a, srv) == /\ ~closed
                    /\ Install(CallStep(Here, op, a, srv, SoptsSurviveNonSearch, ModsSurviveLocalError), pend, srv)
(* the composition With* ; Call as one step (used by the generator to keep the state space small) *)
Round(r) == /\ ~closed
            /\ LET n == RoundStep(Here, r, SoptsSurviveNonSearch, ModsSurviveLocalError) IN
               IF OnClone(r)
               THEN /\ mods' = n.mods /\ last' = n.last /\ closed' = n.closed /\ pend' = ApplyWiths(pend, r.ws)
                    /\ lastcall' = [valid |-> TRUE, set |-> NoMods, srv |-> r.srv, res |-> n.res]      \* nothing was ever set on the clone
               ELSE Install(n, ApplyWiths(pend, r.ws), r.srv)

(* ------------------------------ the property ------------------------------ *)
(* At every moment the modifiers in force are exactly those set since the previous call (in particular none right
   after a call), and the PDU and outcome of every call reflect exactly the modifiers set since the call before it. *)
ModsOneShot ==
  /\ mods = pend
  /\ lastcall.valid =>
       LET r == lastcall.res
           s == lastcall.set
       IN r.haswire =>
            /\ r.some = s.hasc /\ r.ctrls = (IF s.hasc THEN s.c ELSE <<>>)
            /\ (r.op = "search" => SoptsOf(r.a) = (IF s.hass THEN s.s ELSE DefaultSopts))
            /\ (r.out = "timeout") = (s.hast /\ lastcall.srv = "silent" /\ HasResponse(r.op))
            /\ (r.out = "timeout" => r.tmo = s.t)
=============================================================================
