SPECIFICATION Spec
CONSTANTS
  SoptsSurviveNonSearch = FALSE
  ModsSurviveLocalError = TRUE
  MaxLen = 2
  Wide = FALSE
  EmitVectors = FALSE
INVARIANTS ModsOneShot
CHECK_DEADLOCK FALSE
