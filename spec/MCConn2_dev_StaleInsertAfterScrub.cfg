SPECIFICATION Spec
CONSTANTS
  Ops = {"o1", "o2"}
  NoOp = "none"
  MaxId = 4
  Last0 <- LastWrap
  MaxItems = 1
  ItemTypes <- EntOnly
  MaxOrphans = 0
  Kinds <- KindsAll
  Tmo = {0, 2}
  Horizon = 0
  AllowFaults = FALSE
  OpenGarbage = FALSE
  AdapterErrors = FALSE
  AllowCancel = FALSE
  AllowStall = FALSE
  AbstractTime = TRUE
  LeakSearchIdOnDone = FALSE
  AbandonKeepsTargetId = FALSE
  DirectStaysActive = FALSE
  StaleInsertAfterScrub = TRUE
INVARIANTS TypeOK Routing FinalIsFinal UniqueIds IdRange WireUnique Protected RoutedProtected AllocAgrees NoLeak MapsSubsetUsed StreamOK FailFast UnbindCloses
PROPERTIES TimeoutKeepsConn DeliveredSurvives
CHECK_DEADLOCK FALSE
