SPECIFICATION TrSpec
POSTCONDITION Accepted
CHECK_DEADLOCK FALSE
