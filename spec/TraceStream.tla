----------------------------- MODULE TraceStream -----------------------------
(***************************************************************************)
(* I -> S for C10 / C16.  Every record is one whole behaviour of the real  *)
(* SearchStream (or Ldap::search) against a seeded random script:          *)
(*   [n, env, calls, outs, reqs]  - outs / reqs are what the code did.     *)
(* One state per record.  A record is accepted iff                         *)
(*   (a) the model's Run(env, calls) gives exactly these observations and  *)
(*       this request log, and                                             *)
(*   (b) the laws of C10 / C16 (ItemsLaw, FinishLaw, StateLaw, PagingLaw,  *)
(*       SearchLaw - formulated on the script and the observations alone)  *)
(*       hold of the implementation's observations.                        *)
(* A rejected record is printed as <<"BADREC", index>> and, for the class  *)
(* key, <<"DIAG", json([l, why, exp])>> with the model's expectation.      *)
(***************************************************************************)
EXTENDS SearchStream, TLC, Json, IOUtils

Rec == ndJsonDeserialize(IOEnv.TRACE)
VARIABLE l

Load(r) == /\ env = r.env /\ calls = r.calls /\ outs = r.outs
           /\ S = [Fresh EXCEPT !.reqs = r.reqs]
LoadNext(r) == /\ env' = r.env /\ calls' = r.calls /\ outs' = r.outs
               /\ S' = [Fresh EXCEPT !.reqs = r.reqs]

\* the implementation's observations are well-formed enough for the laws to be evaluated
Shape == /\ Len(outs) >= 1
         /\ \A n \in 1..Len(outs) : outs[n].x.k \notin {"panic", "hang"}
         /\ Len(outs) = Len(calls)
         /\ (calls[1] = "search" \/ outs[1].x.k # "ok") => Len(calls) = 1

Expected == Run(env, calls)
Why == IF ~Shape THEN "shape"
       ELSE IF Expected.outs # outs THEN "model:outs"
       ELSE IF Expected.reqs # S.reqs THEN "model:reqs"
       ELSE IF ~ItemsLaw THEN "law:ItemsLaw"
       ELSE IF ~FinishLaw THEN "law:FinishLaw"
       ELSE IF ~StateLaw THEN "law:StateLaw"
       ELSE IF ~PagingLaw THEN "law:PagingLaw"
       ELSE IF ~SearchLaw THEN "law:SearchLaw"
       ELSE "ok"

CheckCur == IF Why = "ok" THEN TRUE
            ELSE /\ PrintT(<<"BADREC", l>>)
                 /\ PrintT(<<"DIAG", ToJson([l |-> l, why |-> Why, exp |-> Expected])>>)

Init == l = 1 /\ (IF Len(Rec) >= 1 THEN Load(Rec[1]) ELSE Load([env |-> <<>>, calls |-> <<>>, outs |-> <<>>, reqs |-> <<>>]))
Next == /\ l <= Len(Rec)
        /\ CheckCur
        /\ l' = l + 1
        /\ IF l + 1 <= Len(Rec) THEN LoadNext(Rec[l + 1]) ELSE UNCHANGED <<env, S, calls, outs>>
Spec == Init /\ [][Next]_<<l, env, S, calls, outs>>
Accepted == IF TLCGet("stats").diameter - 1 = Len(Rec) THEN TRUE
            ELSE Print(<<"TRACE-NOT-CONSUMED", TLCGet("stats").diameter, Len(Rec)>>, FALSE)
=============================================================================
