SPECIFICATION Spec
CONSTANTS
  SizeNats = {0, 1, 2, 126, 127, 128, 129, 254, 255, 256, 257, 32767, 32768, 65534, 65535, 65536, 8388607, 8388608, 16777215, 16777216, 2147483646, 2147483647}
  NegSizes = {1, 2, 128, 129, 32768, 32769, 2147483647}
  CookieLens = {0, 1, 2, 126, 127, 128, 129, 255, 256, 300, 1000}
  StrLens = {127, 128, 255, 256}
  Forms = {1, 2, 3, 4}
  Deep = TRUE
  EmitVectors = TRUE
INVARIANTS RespRoundTrip EnvRoundTrip EnvEncDec ReqWellFormed Emit
CHECK_DEADLOCK FALSE
