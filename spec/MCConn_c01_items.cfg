SPECIFICATION Spec
CONSTANTS
  Ops = {"o1", "o2"}
  NoOp = "none"
  MaxId = 4
  Last0 <- LastWrap
  MaxItems = 2
  ItemTypes <- AllItems
  MaxOrphans = 0
  Kinds <- KindsNoUnb
  Tmo = {0}
  Horizon = 0
  AllowFaults = FALSE
  OpenGarbage = FALSE
  AdapterErrors = FALSE
  AllowCancel = FALSE
  AllowStall = FALSE
  AbstractTime = TRUE
  LeakSearchIdOnDone = FALSE
  AbandonKeepsTargetId = FALSE
  DirectStaysActive = FALSE
  StaleInsertAfterScrub = FALSE
INVARIANTS TypeOK Routing FinalIsFinal StreamOK

CHECK_DEADLOCK FALSE
