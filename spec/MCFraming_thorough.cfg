SPECIFICATION Spec
CONSTANTS
  Pool3 = {1, 2, 3, 4, 5, 6}
  Pool2 = {7, 8, 9, 12}
  MaxMsgs = 3
  EmitVectors = TRUE
INVARIANTS OutPrefix NotEarly NotLate BufferSuffix Alive AllOut PrefixNeedMore
CHECK_DEADLOCK FALSE
