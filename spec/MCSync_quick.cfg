SPECIFICATION MCSpec
CONSTANTS Tier = "quick"
          MaxLen = 3
INVARIANTS TypeOK ModsExactlyNext AfterDisconnectFail IdsIncrease OneRequestPerOp Emit
CHECK_DEADLOCK FALSE
