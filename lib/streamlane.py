"""Shared driver of the SearchStream lane (C10 search-stream protocol, C16 PagedResults adapter).

 (a) TLC checks the laws of spec/SearchStream.tla (ItemsLaw, FinishLaw, StateLaw, PagingLaw, SearchLaw, NoPanic) on the
     bounded instances of spec/MCStream.tla: server scripts x adapter chains x request parameters x call sequences;
 (b) every complete behaviour of that run is printed as a VEC line (script, calls, expected return of every call, expected
     state() after every call, expected request log) and replayed by harness/src/bin/stream-run.rs against the real
     SearchStream / Ldap::search over the in-process transport with an independent scripted server (S -> I);
 (c) seeded random longer behaviours of the real code are validated by spec/TraceStream.tla (I -> S): the model's Run()
     must give the same observations and the laws must hold of the implementation's observations;
 (d) with the deviation constant StaleResultAfterSplice = TRUE (the pinned behaviour, D-PAGED-STALE-RESULT) TLC must find
     that FinishLaw fails: the model can express the defect and the law notices it.

Ownership: every mismatch class key carries the owning property as prefix (`c10:` items, states, finish codes, search();
`c16:` request log, page concatenation, paging control in the final result, AdapterInit).  A check reports only the
classes it owns; what it saw of the other property's classes is listed in a note."""
import json, os
import common as C

OWN = {"C10": "c10:", "C16": "c16:"}

#            MC configurations                                        trace records  tlc timeout
CFG = {
    ("C10", "quick"):    (["MCStream_c10_quick.cfg", "MCStream_c10_quick_state.cfg"], 400, 300),
    ("C10", "thorough"): (["MCStream_c10_thorough.cfg", "MCStream_c10_thorough_state.cfg"], 4000, 1800),
    ("C16", "quick"):    (["MCStream_c16_quick.cfg"], 400, 300),
    ("C16", "thorough"): (["MCStream_c16_thorough.cfg"], 4000, 1800),
}

RULES = {
    "C10": ("S->I: one behaviour per complete call sequence of MCStream: all item sequences over {entry, reference, intermediate} "
            "of length <= 3 (thorough: <= 4, all four result variants rc 0/4/10/32 with result controls and per-item controls) "
            "plus multi-page scripts, every connection-loss point on a subset, x the five chains (direct, EO, PR, EO.PR, PR.EO) "
            "x every sequence over {next, finish} of length 6 and every sequence over {next, finish, state} of length 5 "
            "(thorough: 6) on a smaller script set, plus Ldap::search() on every script; non-trivial = at least two calls after "
            "start (or a search()), distinct by the whole vector"),
    "C16": ("S->I: one behaviour per planned call sequence of MCStream: result sets of 0..5 entries served 1..3 at a time "
            "(cookies distinct / repeated / long / binary, with and without a trailing empty page), ten paging corner cases (empty "
            "first page, short pages, error rc with and without cookie, missing paging control, mixed items, cookie on the last "
            "scripted page, other controls around the paging control), three request-parameter variants + a caller-supplied "
            "paging control, every connection-loss point on a subset, x chains PR, EO.PR, PR.EO x {next^a . tail : a in 0..6, "
            "tail in five endings with finish / drain at every position}; non-trivial as for C10"),
}


def _own_view(rep, prefix):
    """Copy of a harness report restricted to the class keys with this prefix, and the rest as {key: count}."""
    by = rep.get("mismatch_by_key", {})
    mine = {k: n for k, n in by.items() if k.startswith(prefix)}
    rest = {k: n for k, n in by.items() if not k.startswith(prefix)}
    r = dict(rep)
    r["mismatch_by_key"] = mine
    r["mismatch_total"] = sum(mine.values())
    r["mismatches"] = [m for m in rep.get("mismatches", []) if m["key"].startswith(prefix)]
    return r, rest


def _note_rest(chk, rest, where):
    if rest:
        chk.notes.append("%s: %d disagreement(s) in classes this property does not own (reported by their owner): %s"
                         % (where, sum(rest.values()), ", ".join("%s x%d" % kv for kv in sorted(rest.items()))))


def _unescape(s):
    s = s.strip()
    if s.startswith('"') and s.endswith('"'):
        s = s[1:-1]
    out, i = [], 0
    while i < len(s):
        c = s[i]
        if c == "\\" and i + 1 < len(s):
            n = s[i + 1]
            out.append({"n": "\n", "t": "\t"}.get(n, n) if n in '"\\nt' else "\\" + n)
            i += 2
        else:
            out.append(c)
            i += 1
    return "".join(out)


def validate_trace(chk, pid, trace_path, out, source, timeout):
    """I -> S: TraceStream recomputes every recorded behaviour; rejected records are classified by the harness's own
    comparison against the model's expectation (printed by TLC as DIAG)."""
    res = C.tlc("TraceStream", "TraceStream.cfg", out, workers=1, env={"TRACE": trace_path}, timeout=timeout, heap="2g")
    nrec = sum(1 for _ in open(trace_path))
    bad = [int(x.strip()) for x in C.tagged_lines(out, "BADREC")]
    if not res["ok"] or res["depth"] != nrec + 1:
        chk.tool_error("TraceStream: trace validation did not consume the trace (depth %s of %s records): %s\n%s"
                       % (res["depth"], nrec, res["error"], res.get("tail", "")[-1200:]))
        return nrec
    chk.traces += nrec
    chk.extra.setdefault("trace_validation", []).append(
        dict(module="TraceStream", records=nrec, rejected=len(bad), wall_s=round(res["wall"], 1)))
    if not bad:
        return nrec
    diag = {}
    for raw in C.tagged_lines(out, "DIAG"):
        d = json.loads(_unescape(raw))
        diag[d["l"]] = d
    want = set(bad)
    cin = os.path.join(chk.dir, "rejected.ndjson")
    with open(cin, "w") as g, open(trace_path) as f:
        for i, line in enumerate(f, 1):
            if i in want:
                d = diag.get(i, {})
                g.write(json.dumps(dict(rec=json.loads(line), exp=d.get("exp", {}), why=d.get("why", "?"))) + "\n")
    crep = os.path.join(chk.dir, "rejected-classes.json")
    C.harness("stream-run", ["classify", cin, crep])
    rep = C.load(crep)
    mine, rest = _own_view(rep, OWN[pid])
    broken = {k: n for k, n in rest.items() if k.startswith("other:trace:")}
    if broken:
        chk.tool_error("TraceStream rejected %d record(s) whose observations equal the model's expectation (the laws and the "
                       "model disagree): %s" % (sum(broken.values()), json.dumps(rep.get("mismatches", [])[:2])[:1500]))
    for k in broken:
        rest.pop(k)
    mine["evaluations"] = 0          # already counted by the generation report
    mine["distinct_nontrivial"] = 0
    mine["lane"] = "stream-trace-rejected"
    chk.report(mine, source)
    _note_rest(chk, rest, "I->S")
    return nrec


def run(pid, tier, extra=None):
    chk = C.Check(pid, "model_checking", tier)
    C.build_harness()
    cfgs, ntrace, tmo = CFG[(pid, tier)]
    d = chk.dir
    prefix = OWN[pid]
    # (a) + (b)
    for cfg in cfgs:
        out = os.path.join(d, cfg.replace(".cfg", ".out"))
        res = C.tlc("MCStream", cfg, out, workers=4 if tier == "quick" else 8, timeout=tmo, heap="2g")
        chk.model("MCStream/" + cfg, res)
        if not res["ok"]:
            continue
        rep_path = os.path.join(d, cfg.replace(".cfg", ".replay.json"))
        C.harness("stream-run", ["replay", out, rep_path], timeout=tmo)
        rep = C.load(rep_path)
        os.remove(out)
        mine, rest = _own_view(rep, prefix)
        chk.report(mine, "S->I replay of MCStream/%s behaviours into the real SearchStream" % cfg)
        _note_rest(chk, rest, "S->I " + cfg)
        need = ["vectors", "next:some-e", "next:none", "next:outside-active", "finish:rc-88", "finish:rc-80", "state-after:Done",
                "state-after:Error", "state-after:Closed"]
        if pid == "C10" and "state" not in cfg:
            need += ["chain:direct", "chain:EO", "chain:PR", "chain:EO.PR", "chain:PR.EO", "next:some-r", "next:some-i", "search:res",
                     "search:err", "finish:with-refs", "finish:with-controls", "next:item-with-controls", "loss:mid-page",
                     "loss:before-request", "finish:rc-0", "finish:rc-4", "finish:rc-10", "finish:rc-32"]
        if pid == "C16":
            need += ["requests:2", "requests:3", "finish:early-after-page-splice", "start:adapterinit", "par:with-controls",
                     "par:non-default-options", "drain:none", "drain:err", "loss:before-request", "loss:mid-page"]
        missing = [k for k in need if rep["counters"].get(k, 0) == 0]
        if missing:
            chk.tool_error("vacuity: %s generated no behaviour of kind %s" % (cfg, ", ".join(missing)))
    chk.exhaustive = True
    chk.rule.append(RULES[pid])
    # (d) the deviation is expressible and the law notices it
    out = os.path.join(d, "dev-stale.out")
    res = C.tlc("MCStream", "MCStream_dev_Stale.cfg", out, workers=2, timeout=300, heap="1g")
    chk.model("MCStream/MCStream_dev_Stale.cfg (pinned deviation on: FinishLaw must fail)", res, expect_violation="FinishLaw")
    os.remove(out)
    # (c)
    tr = os.path.join(d, "impl.ndjson")
    trep = os.path.join(d, "trace-gen.json")
    C.harness("stream-run", ["trace", tr, ntrace, trep], timeout=tmo)
    g = C.load(trep)
    chk.report(g, "I->S generation")
    if g["counters"].get("panics", 0):
        chk.notes.append("I->S: %d behaviour(s) ended in a panic of the code under test" % g["counters"]["panics"])
    validate_trace(chk, pid, tr, os.path.join(d, "tracestream.out"),
                   "I->S: TraceStream rejected behaviours of the real SearchStream", tmo)
    chk.rule.append("I->S: seeded random scripts (direct/EO: <= 200 items; paged: <= 500 items, page size 1..100, random cookies, "
                    "occasional missing control / error rc / loss point; random request parameters incl. a caller-supplied paging "
                    "control) with random call sequences over {next, finish, state, drain} and search(); every record is a whole "
                    "behaviour, recomputed by TLC with the model's Run() and checked against the laws")

    def corrupt_item(r):
        if r["calls"][0] != "start":
            return None
        for o in r["outs"]:
            if o["x"]["k"] == "some":
                r = json.loads(json.dumps(r))
                for o2 in r["outs"]:
                    if o2["x"]["k"] == "some":
                        o2["x"]["it"]["id"] += 1
                        return r
        return None

    def corrupt_cookie(r):
        if len(r["reqs"]) >= 2 and any(c["k"] == "pr" for c in r["reqs"][1]["ctrls"]):
            r = json.loads(json.dumps(r))
            for c in r["reqs"][1]["ctrls"]:
                if c["k"] == "pr":
                    c["cookie"] = 0
            return r
        return None

    def corrupt_finish(r):
        for i, o in enumerate(r["outs"]):
            if o["x"]["k"] == "res" and o["x"]["r"]["rc"] == 88:
                r = json.loads(json.dumps(r))
                r["outs"][i]["x"]["r"]["rc"] = 0
                return r
        return None

    if pid == "C10":
        C.selftest_record(chk, "TraceStream", "TraceStream.cfg", tr, corrupt_item, "item-id-off-by-one")
        C.selftest_record(chk, "TraceStream", "TraceStream.cfg", tr, corrupt_finish, "early-finish-reports-success")
    else:
        C.selftest_record(chk, "TraceStream", "TraceStream.cfg", tr, corrupt_cookie, "followup-with-empty-cookie")
        C.selftest_record(chk, "TraceStream", "TraceStream.cfg", tr, corrupt_item, "item-id-off-by-one")
    os.remove(tr)
    chk.assumptions += [
        "TLC and the CommunityModules Json reader are correct",
        "spec/SearchStream.tla transcribes the documented protocol of SearchStream/EntriesOnly/PagedResults and RFC 2696 "
        "(cross-checked: the call semantics Level() and the laws formulated on script + observations agree on every behaviour)",
        "the scripted server, the independent BER reader/writer and the mock transport of the harness are correct",
        "Tokio's current-thread scheduler and seeded select! behave as documented; the harness lets the driver task run to "
        "quiescence between polls of the call under test, so the single-caller behaviour is deterministic",
        "timeouts of streaming searches are not part of the sequential lane; the connection lane (timed streams, concurrent "
        "operations) contributes the stream-protocol observables it sees",
    ]
    if extra:
        extra(chk)
    return chk.finish()


def replay(pid, path):
    r = C.load(path)
    print("replay of %s: class %s; re-running the quick check" % (path, r.get("key")))
    return run(pid, "quick")
