"""C14 - the synchronous API (LdapConn / EntryStream) is observationally identical to the asynchronous one
(Ldap / SearchStream).

 (a) TLC model-checks spec/LdapSeqSync.tla through spec/MCSync.tla: a deterministic sequential model of one handle
     driven by a script (modifiers + call + server behaviour per step); the invariants are the laws the property
     states (modifiers affect exactly the next operation, after a disconnect every later call fails, message IDs
     are consecutive); every state is one script and is printed as a vector with the model's predicted events;
 (b) harness/src/bin/sync-run.rs runs every script TWICE over a real Unix socket against the same scripted server
     thread - once through LdapConnAsync/Ldap/SearchStream, once through LdapConn/EntryStream - and requires
     identical request bytes, identical returned values (full Debug rendering), identical last_id()/is_closed(),
     and both equal to the model (a deviation both lanes share is reported as a NOTE: shared code, not C14);
 (c) TLC (spec/TraceSync.tla) re-validates the recorded pairs of transcripts: each must be a behaviour of LdapSeqSync
     and the two must be equal event by event; the same for seeded random longer scripts (<= 12 steps).
Hook-free: only the public API (LdapConnSettings::set_std_stream / ldapi:// paths)."""
import json, os, subprocess
import common as C

CFG = {
    # (BFS cfg, simulate traces per worker or None, random scripts, TLC timeout, harness timeout)
    "quick":    dict(cfg="MCSync_quick.cfg",    sim=None, rand=300,  tmo=300,  htmo=900),
    "thorough": dict(cfg="MCSync_thorough.cfg", sim=1500, rand=4000, tmo=1200, htmo=3000),
}
CALLS = ["simple_bind", "sasl_external_bind", "search", "streaming_search", "streaming_search_with", "add", "compare", "delete",
         "modify", "modifydn", "unbind", "extended", "last_id", "abandon", "is_closed", "get_peer_certificate"]
MUST_COUNT = (["call:" + c for c in CALLS] + ["stream-call:next", "stream-call:result", "stream-call:lastid",
              "mod:with_controls", "mod:with_timeout", "mod:with_search_options",
              "ctor:ws", "ctor:fus", "ctor:new", "ctor:fu",
              "srv:ok", "srv:e32", "srv:sil", "srv:dis", "srv:k1", "srv:k2", "srv:ref", "srv:k1s", "srv:k1d", "srv:p2",
              "paged-search-second-page-requested",
              "outcome:ok", "outcome:timeout", "outcome:conn", "outcome:local", "outcome:eos", "stream-outcome:timeout"])


def sub_name(s):
    return {"next": "EntryStream::next", "result": "EntryStream::result"}.get(s, "EntryStream::last_id")


def classify(r):
    """Class key of a record TraceSync rejected (same scheme as sync-run's lane_diff)."""
    if r.get("ca") != r.get("cb"):
        return "c14:%s:return-differs" % {"ws": "with_settings", "fus": "from_url_with_settings", "new": "new"}.get(r["ctor"], "from_url")
    a, b, steps = r["a"], r["b"], r["steps"]
    unst = None         # first step after which only outcome classes are comparable (see LdapSeqSync `unst`)
    for i, st in enumerate(steps):
        if st["call"] == "unbind":
            unst = i
            break
        if st["call"].startswith("streaming_search") and st["srv"] in ("dis", "k1d"):
            saw = lambda l: i < len(l) and any(s["var"] == "EndOfStream" for s in l[i]["subs"])
            if not (saw(a) and saw(b)):
                unst = i
                break
    for i in range(max(len(a), len(b))):
        st = steps[i]
        m = "modifiers" if st["call"] == "noop" else st["call"]
        if i >= len(a) or i >= len(b):
            return "c14:%s:return-differs" % m
        x, y = a[i], b[i]
        if x["wire"] != y["wire"] or x["reqs"] != y["reqs"]:
            if len(x["reqs"]) != len(y["reqs"]):
                return "c14:%s:wire-differs:request-count" % m
            for p, q in zip(x["reqs"], y["reqs"]):
                d = [f for f in ("op", "id", "arg", "ctl", "so") if p[f] != q[f]]
                if d == ["ctl"]:
                    return "c14:with_controls:wire-differs"
                if d == ["so"]:
                    return "c14:with_search_options:wire-differs"
                if d == ["id"]:
                    return "c14:%s:wire-differs:msgid" % m
                if d == ["arg"]:
                    return "c14:%s:wire-differs:args" % m
                if "op" in d:
                    return "c14:%s:wire-differs:op" % m
                if d:
                    return "c14:%s:wire-differs:%s" % (m, "+".join(d))
            return "c14:%s:wire-differs:bytes" % m

        def rk(name, p, q):
            if {p["out"], q["out"]} == {"timeout", "hang"}:
                return "c14:with_timeout:return-differs"
            return "c14:%s:return-differs" % name
        coarse = unst is not None and i > unst
        if coarse:
            same = st["call"] in ("is_closed", "get_peer_certificate") or (
                x["ret"]["out"] == y["ret"]["out"] and (x["ret"]["out"] != "ok" or x["ret"] == y["ret"]))
        else:
            same = x["ret"] == y["ret"]
        if not same:
            return rk(m, x["ret"], y["ret"])
        for k in range(max(len(x["subs"]), len(y["subs"]))):
            name = sub_name(st["sub"][k]) if k < len(st["sub"]) else "EntryStream"
            if k >= len(x["subs"]) or k >= len(y["subs"]):
                return "c14:%s:return-differs" % name
            if x["subs"][k] != y["subs"][k]:
                return rk(name, x["subs"][k], y["subs"][k])
        if x["ret"]["out"] == "hang" or any(z["out"] == "hang" for z in x["subs"]):
            continue
        if x["lastid"] != y["lastid"]:
            return "c14:last_id:return-differs"
        if x["closed"] != y["closed"] and not (unst is not None and i >= unst):
            return "c14:is_closed:return-differs"
    return "c14:transcripts-differ"


def shared_notes(chk, out, what):
    """SHARED lines of a TraceSync run: both lanes agree with each other but not with the model."""
    by = {}
    for body in C.tagged_lines(out, "SHARED"):
        # body: `17, <<2, "search", "request:so">>`
        parts = [p.strip().strip('<>"') for p in body.split(",")]
        key = parts[-1] if parts[-1].startswith("request:") else "%s:%s" % (parts[-2], parts[-1])
        by[key] = by.get(key, 0) + 1
    for k, n in sorted(by.items()):
        chk.notes.append("not C14 (TraceSync, %s: lanes equal, model differs): %s x%d%s"
                         % (what, k, n, {"request:so": " [search options survive a non-search operation: D-SOPTS]",
                                         "request:ctl": " [controls survive a locally rejected add/modify: D-LOCAL-ERR]"}.get(k, "")))
    return sum(by.values())


def validate(chk, trace, out, source, tmo):
    n = C.validate_records(chk, "TraceSync", "TraceSync.cfg", trace, out, classify, source, timeout=tmo)
    shared = shared_notes(chk, out, os.path.basename(trace))
    chk.extra.setdefault("shared_deviations", []).append(dict(trace=os.path.basename(trace), records=n, lanes_equal_model_differs=shared))
    return n


def vacuity(chk, rep, what, need):
    c = rep.get("counters", {})
    if c.get("skipped-after-10-confirmed-hang-differences", 0):
        return      # a failing run (lane differences are being reported) that cut its silence scripts short: coverage is moot
    missing = [k for k in need if c.get(k, 0) == 0]
    if missing:
        chk.tool_error("%s: input classes that never occurred: %s" % (what, ", ".join(missing)))
    n = c.get("scripts", 0) - rep.get("mismatch_total", 0)       # scripts on which the lanes agree
    ok = c.get("both-lanes-conform-to-model", 0)
    if "both-lanes-conform-to-model" in c or what.startswith("replay"):
        if c.get("scripts", 0) == 0 or ok < 0.8 * n:
            chk.tool_error("%s: only %d of %d scripts behaved as the model predicts in both lanes - the harness is not exercising what it claims"
                           % (what, ok, n))


def run(tier):
    chk = C.Check("C14", "model_checking", tier)
    C.build_harness()
    cf = CFG[tier]
    d = chk.dir
    # (a) + (b): BFS families
    out = os.path.join(d, "mcsync.out")
    res = C.tlc("MCSync", cf["cfg"], out, workers=4, timeout=cf["tmo"], heap="3g")
    chk.model("MCSync/" + cf["cfg"], res)
    if not res["ok"]:
        return chk.finish()
    tr = os.path.join(d, "replay.ndjson")
    rp = os.path.join(d, "replay.json")
    C.harness("sync-run", ["replay", out, tr, rp], timeout=cf["htmo"])
    os.remove(out)
    rep = C.load(rp)
    nvec = rep["counters"].get("vectors", 0)
    if nvec != res["distinct"] - 4:          # the four initial states (one per constructor) carry no script
        chk.tool_error("vector count %s differs from TLC's distinct states %s - 4" % (nvec, res["distinct"]))
    chk.report(rep, "S->I: every MCSync script run through Ldap/SearchStream and through LdapConn/EntryStream")
    vacuity(chk, rep, "replay", MUST_COUNT)
    chk.exhaustive = True
    chk.rule.append(
        "S->I: one script per state of MCSync (families: every call/argument/stream-pattern variant; every operation x every "
        "modifier combination x every server behaviour {success, rc 6/10/32, entries x1/x2, referral, silence, disconnect, entry then "
        "silence/disconnect}; modifier-then-probe pairs; error/timeout/disconnect/unbind followed by probes; message-ID/abandon "
        "sequences; all four constructors), each run through BOTH APIs; non-trivial = has a modifier, a non-success server behaviour or "
        "more than one step, distinct by script")
    validate(chk, tr, os.path.join(d, "tracesync-replay.out"), "I->S: TraceSync rejected a pair of transcripts (MCSync scripts)", cf["tmo"])

    # self-tests of the trace specification: (1) one lane's request bytes altered -> rejected; (2) both lanes altered alike -> SHARED
    def corrupt_one(r):
        for i, e in enumerate(r["b"]):
            if e["wire"]:
                r = json.loads(json.dumps(r))
                w = r["b"][i]["wire"][0]
                r["b"][i]["wire"][0] = w[:-2] + ("00" if w[-2:] != "00" else "01")
                return r
        return None
    C.selftest_record(chk, "TraceSync", "TraceSync.cfg", tr, corrupt_one, "sync-lane-byte-flipped")

    def corrupt_ret(r):
        for i, e in enumerate(r["b"]):
            if e["ret"]["rc"] >= 0:
                r = json.loads(json.dumps(r))
                r["b"][i]["ret"]["rc"] += 1
                r["b"][i]["ret"]["raw"] += "!"
                return r
        return None
    C.selftest_record(chk, "TraceSync", "TraceSync.cfg", tr, corrupt_ret, "sync-lane-result-code-altered")
    selftest_shared(chk, tr)
    os.remove(tr)

    # longer scripts sampled by TLC -simulate (thorough)
    if cf["sim"]:
        out = os.path.join(d, "mcsync-sim.out")
        res = C.tlc("MCSync", "MCSync_sim.cfg", out, workers=4, timeout=cf["tmo"], heap="3g",
                    simulate="num=%d" % cf["sim"], extra=["-depth", "6", "-seed", str(C.seed())])
        res["ok"] = res["rc"] == 0 and res["error"] is None
        chk.extra.setdefault("tlc_runs", []).append(dict(name="MCSync/simulate", traces=4 * cf["sim"], wall_s=round(res["wall"], 1),
                                                         violated=res["violated"]))
        if not res["ok"]:
            chk.tool_error("MCSync -simulate failed: %s\n%s" % (res["error"] or res["violated"], res.get("tail", "")[-1200:]))
        else:
            tr2 = os.path.join(d, "sim.ndjson")
            rp2 = os.path.join(d, "sim.json")
            C.harness("sync-run", ["replay", out, tr2, rp2], timeout=cf["htmo"])
            rep2 = C.load(rp2)
            chk.report(rep2, "S->I: scripts of up to 5 steps sampled by TLC -simulate over the whole step pool")
            vacuity(chk, rep2, "replay(simulate)", ["len:5", "len:4"])
            validate(chk, tr2, os.path.join(d, "tracesync-sim.out"), "I->S: TraceSync rejected a pair of transcripts (simulated scripts)", cf["tmo"])
            os.remove(tr2)
            chk.rule.append("S->I (sampled): %d random walks of 5 steps over all %s step variants, every prefix replayed" % (4 * cf["sim"], "13 000+"))
        if os.path.exists(out):
            os.remove(out)

    # (c) seeded random scripts of 3..12 steps generated by the harness, validated by TraceSync
    tr3 = os.path.join(d, "random.ndjson")
    rp3 = os.path.join(d, "random.json")
    C.harness("sync-run", ["trace", tr3, cf["rand"], rp3], timeout=cf["htmo"])
    rep3 = C.load(rp3)
    chk.report(rep3, "I->S generation: seeded random scripts (3..12 steps) through both APIs")
    vacuity(chk, rep3, "random", ["call:" + c for c in CALLS] + ["len:12", "ctor:new", "ctor:fu", "paged-search-second-page-requested"])
    validate(chk, tr3, os.path.join(d, "tracesync-random.out"), "I->S: TraceSync rejected a pair of transcripts (random scripts)", cf["tmo"])
    os.remove(tr3)
    chk.rule.append("I->S: seeded random scripts of 3..12 steps (all calls, modifiers, behaviours, constructors; silence only together with "
                    "a timeout) run through both APIs; TraceSync recomputes the model for each and compares both transcripts with it and with each other")
    chk.assumptions += [
        "TLC and the CommunityModules Json reader are correct",
        "both lanes talk to the same scripted server code over the same kind of transport (AF_UNIX stream socket), so any difference comes from the library",
        "the asynchronous lane uses one task on a current-thread runtime (one handle, one operation at a time), as LdapConn does internally",
        "real time enters only through the 80 ms client timeout (silence cases) and the 5 s watchdog; a lane difference is reported only if it "
        "shows in three consecutive runs of the script",
        "after unbind (and after a stream is dropped with an unread disconnect) is_closed() and the exact error variant depend on whether the "
        "driver task was polled again; there only the outcome class is compared",
        "gssapi/ntlm binds are not compiled in (features off) and are not covered",
    ]
    return chk.finish()


def selftest_shared(chk, trace_path):
    """Model binding: a record in which BOTH lanes are altered in the same way must be reported as SHARED (and not rejected as a lane difference)."""
    rec = None
    with open(trace_path) as f:
        for line in f:
            r = json.loads(line)
            if r["a"] and r["a"][0]["reqs"] and r["a"] == r["b"] and r["a"][0]["reqs"][0]["ctl"] == 0:
                rec = r
                break
    if rec is None:
        chk.tool_error("selftest shared: no record to alter")
        return
    for lane in ("a", "b"):
        rec[lane][0]["reqs"][0]["ctl"] = 1
    p = os.path.join(chk.dir, "selftest-shared.ndjson")
    with open(p, "w") as f:
        f.write(json.dumps(rec) + "\n")
    out = os.path.join(chk.dir, "selftest-shared.out")
    res = C.tlc("TraceSync", "TraceSync.cfg", out, workers=1, env={"TRACE": p}, timeout=120)
    ok = res["ok"] and len(list(C.tagged_lines(out, "SHARED"))) == 1 and len(list(C.tagged_lines(out, "BADREC"))) == 0
    chk.extra.setdefault("binding_selftest", []).append(dict(name="both-lanes-altered-alike-is-a-model-deviation", detected=ok))
    if not ok:
        chk.tool_error("selftest shared: a deviation from the model common to both lanes was not reported by TraceSync")


def replay(path):
    r = C.load(path)
    cases = r.get("case", {}).get("cases") or []
    print("replay of %s: class %s" % (path, r.get("key")))
    C.build_harness()
    rc = 0
    for c in cases[:3]:
        sc = c.get("script") or ({"ctor": c.get("ctor"), "steps": c.get("steps")} if "steps" in c else None)
        if not sc:
            continue
        p = subprocess.run([os.path.join(C.BIN, "sync-run"), "one", json.dumps(sc)], stdout=subprocess.PIPE, stderr=subprocess.STDOUT, text=True,
                           env=dict(os.environ, C14_SOCKDIR=os.path.join(C.run_dir("C14-replay"), "socks")))
        tail = [l for l in p.stdout.splitlines() if l.startswith(("DIFFERENCE", "lanes agree"))]
        print("script %s\n  -> %s" % (json.dumps(sc), tail[-1] if tail else "exit %d" % p.returncode))
        if p.returncode == 1:
            rc = 1
        elif p.returncode != 0:
            return 2
    if not cases:
        return run("quick")
    return rc
