"""C09 - escaped text is inert: escaping then parsing returns the original value.

Data flow (S->I and I->S coincide for this property):
 (a) TLC model-checks spec/Escape.tla on itself (MCEscape): reference escapers written from the RFC text satisfy the
     laws L1-L3 with the specification's RFC 4515 / RFC 4514 parsers, and unescaped embedding is inert exactly when
     Needs*Esc is false; every state is a value v and is printed as a vector;
 (b) the harness (escape-run replay) hands every v to ldap_escape, dn_escape, ldap_unescape and parse_filter and
     records what they returned; escape-run trace does the same for seeded random Unicode strings;
 (c) TLC (TraceEscape) evaluates the laws L1-L4 on the recorded outputs with the specification's own parsers.
A record TLC rejects is a violation; its class key names the function, the kind of failure and the minimal set of
special characters / positions of the failing value."""
import json, os, shutil, time, concurrent.futures
import common as C

CFG = {
    "quick":    dict(cfg="MCEscape_quick.cfg",    rand=8000,   shards=8,  par=8,  tmo=600,  workers=8),
    "thorough": dict(cfg="MCEscape_thorough.cfg", rand=120000, shards=48, par=12, tmo=3000, workers=10),
}
HEAP = "2g"        # a bounded heap matters: with the default (1/4 of RAM) the JVM spends most of its time faulting in pages



def tlc(chk, module, cfg, out, workers, timeout, trace=None):
    """common.tlc with a bounded heap and java.io.tmpdir inside the run directory (TLC unpacks its standard modules
    into a fresh tlc-* directory under java.io.tmpdir on every start and leaves the directory behind)."""
    tmp = os.path.join(chk.dir, "tmp")
    os.makedirs(tmp, exist_ok=True)
    env = {"JAVA_TOOL_OPTIONS": "-Xss1g -Xmx%s -Djava.io.tmpdir=%s" % (HEAP, tmp)}
    if trace:
        env["TRACE"] = trace
    return C.tlc(module, cfg, out, workers=workers, env=env, timeout=timeout)


def selftest(chk, trace_paths, mutate, name):
    """Binding self-test (as common.selftest_record, with this lane's TLC settings): a deliberately corrupted record
    must be rejected by the trace specification."""
    first = None
    for tp in trace_paths:
        with open(tp) as f:
            for line in f:
                first = mutate(json.loads(line))
                if first is not None:
                    break
        if first is not None:
            break
    if first is None:
        chk.tool_error("selftest %s: no record to corrupt" % name)
        return
    p = os.path.join(chk.dir, "selftest-%s.ndjson" % name)
    with open(p, "w") as f:
        f.write(json.dumps(first) + "\n")
    out = os.path.join(chk.dir, "selftest-%s.out" % name)
    res = tlc(chk, "TraceEscape", "TraceEscape.cfg", out, 1, 120, trace=p)
    ok = res["ok"] and len(list(C.tagged_lines(out, "BADREC"))) == 1
    chk.extra.setdefault("binding_selftest", []).append(dict(name=name, corrupted_record_rejected=ok))
    if not ok:
        chk.tool_error("selftest %s: corrupted record was NOT rejected by TraceEscape" % name)


NAMES = {0: "nul", 32: "space", 35: "sharp", 34: "dquote", 43: "plus", 44: "comma", 59: "semi", 60: "lt", 61: "equals",
         62: "gt", 92: "backslash", 42: "star", 40: "lparen", 41: "rparen"}
FILTER_LAWS_TEXT = ("L1-filter-structure", "L2-rfc4515-unescape")


def features(v, positional):
    """Names of the special octets / positions occurring in v (the 'kind of input' part of a class key)."""
    f = set()
    n = len(v)
    for i, b in enumerate(v):
        if positional and b == 32 and i in (0, n - 1):
            if i == 0:
                f.add("lead-space")
            if i == n - 1:
                f.add("trail-space")
        elif positional and b == 35 and i == 0:
            f.add("lead-sharp")
        elif b in NAMES:
            f.add(NAMES[b])
        elif b < 32 or b == 127:
            f.add("ctl")
        elif b >= 128:
            f.add("nonascii")
    return frozenset(f)


def families(laws):
    """Failed laws of one record -> [(function, kind, positional)]; the escaped text is blamed before the functions
    that merely consume it."""
    out = []
    ls = set(laws)
    if ls & set(FILTER_LAWS_TEXT):
        out.append(("ldap_escape", "not-inert", False))
    elif "L4-filter-unchanged" in ls:
        out.append(("ldap_escape", "changed-needlessly", False))
    elif "L1-parse_filter-ber" in ls:
        out.append(("parse_filter", "wrong-filter", False))
    elif "L2-ldap_unescape" in ls:
        out.append(("ldap_unescape", "not-inverse", False))
    if "L3-dn-structure" in ls:
        out.append(("dn_escape", "not-inert", True))
    elif "L4-dn-unchanged" in ls:
        out.append(("dn_escape", "changed-needlessly", True))
    return out


def text(b):
    return bytes(b).decode("utf-8", "replace")


def classify_all(bad):
    """bad: list of (record, [laws]).  Per function/kind the classes are the minimal feature sets (under inclusion) among
    the failing values: a value that merely contains a known culprit plus other characters is the same defect.  Every
    failing record is counted under the first minimal class contained in its own feature set."""
    items = []
    for r, laws in sorted(bad, key=lambda x: (len(x[0]["v"]), x[0]["v"])):
        for fn, kind, pos in families(laws):
            items.append(((fn, kind), features(r["v"], pos), r, laws))
    minimal = {}
    for fam in set(i[0] for i in items):
        fs = set(i[1] for i in items if i[0] == fam)
        minimal[fam] = sorted((f for f in fs if not any(g < f for g in fs)), key=lambda f: (len(f), sorted(f)))
    classes = {}
    for fam, f, r, laws in items:
        m = next(g for g in minimal[fam] if g <= f)
        c = classes.setdefault((fam, m), [0, []])
        c[0] += 1
        if len(c[1]) < 3:
            c[1].append(dict(v=r["v"], v_text=text(r["v"]), failed_laws=laws, ldap_escape=text(r["fe"]),
                             dn_escape=text(r["de"]), ldap_unescape=(text(r["un"]) if r["un_ok"] else None),
                             parse_filter_ber=(bytes(r["filt"]).hex() if r["filt_ok"] else None)))
    out = []
    for ((fn, kind), m), (n, cases) in sorted(classes.items(), key=lambda kv: (kv[0][0], sorted(kv[0][1]))):
        out.append(("%s:%s:%s" % (fn, kind, "+".join(sorted(m)) or "plain"), dict(count=n, cases=cases)))
    return out


def validate(chk, paths, source, timeout):
    """Run TraceEscape on every shard (in parallel, one worker each); returns [(record, [laws])] of rejected records."""
    def one(p):
        out = p[:-len(".ndjson")] + ".tlc"
        return p, out, tlc(chk, "TraceEscape", "TraceEscape.cfg", out, 1, timeout, trace=p)
    par = CFG[chk.tier]["par"]
    t0 = time.time()
    with concurrent.futures.ThreadPoolExecutor(max_workers=par) as ex:
        results = list(ex.map(one, paths))
    elapsed = time.time() - t0
    bad, total, wall = [], 0, 0.0
    for p, out, res in results:
        nrec = sum(1 for _ in open(p))
        if not res["ok"] or res["depth"] != nrec + 1:
            chk.tool_error("TraceEscape did not consume %s (depth %s of %s records): %s\n%s"
                           % (os.path.basename(p), res["depth"], nrec, res["error"], res.get("tail", "")[-1200:]))
            continue
        total += nrec
        wall = max(wall, res["wall"])
        laws = {}
        for x in C.tagged_lines(out, "BADLAW"):
            i, law = x.split(",", 1)
            laws.setdefault(int(i), []).append(law.strip().strip('"'))
        recs = set(int(x.strip()) for x in C.tagged_lines(out, "BADREC"))
        if recs != set(laws):
            chk.tool_error("TraceEscape output for %s is inconsistent (BADREC %d, BADLAW %d)" % (p, len(recs), len(laws)))
        if laws:
            with open(p) as f:
                for i, line in enumerate(f, 1):
                    if i in laws:
                        bad.append((json.loads(line), laws[i]))
        os.remove(out)
    chk.traces += total
    chk.extra.setdefault("trace_validation", []).append(
        dict(module="TraceEscape", source=source, shards=len(paths), records=total, rejected=len(bad), wall_s=round(elapsed, 1), slowest_shard_s=round(wall, 1), parallel=par))
    return bad


def shard_paths(prefix, n):
    return ["%s-%d.ndjson" % (prefix, k) for k in range(n)]


def corrupt_fe(r):
    """binding self-test 1: pretend ldap_escape returned its argument for a value that needs escaping"""
    if any(b in (0, 40, 41, 42, 92) for b in r["v"]) and len(r["v"]) >= 2:
        r = dict(r)
        r["fe"] = list(r["v"])
        return r
    return None


def corrupt_de(r):
    """binding self-test 2: pretend dn_escape left a trailing space alone (chosen by v only, so that the self-test does
    not depend on what the implementation returned)"""
    v = r["v"]
    if len(v) >= 2 and v[-1] == 32 and all(65 <= b <= 122 and b != 92 for b in v[:-1]):
        r = dict(r)
        r["de"] = list(v)
        return r
    return None


def corrupt_ber(r):
    """binding self-test 3: parse_filter's value octets differ in the last octet (or parse_filter 'failed')"""
    r = dict(r)
    if r["filt_ok"] and r["filt"]:
        b = list(r["filt"])
        b[-1] = (b[-1] + 1) % 256
        r["filt"] = b
    else:
        r["filt_ok"], r["filt"] = True, [163, 0]
    return r


def run(tier, only_values=None):
    chk = C.Check("C09", "model_checking", tier)
    C.build_harness()
    cf = CFG[tier]
    d = chk.dir
    bad = []
    if only_values is None:
        # (a) the specification on itself + value enumeration
        out = os.path.join(d, "mcescape.out")
        res = tlc(chk, "MCEscape", cf["cfg"], out, cf["workers"], cf["tmo"])
        chk.model("MCEscape/" + cf["cfg"], res)
        if not res["ok"]:
            return chk.finish()
    else:
        out = os.path.join(d, "replay-values.out")
        with open(out, "w") as f:
            for v in only_values:
                f.write('<<"VEC", "%s">>\n' % json.dumps(dict(v=v, n=len(v)), separators=(",", ":")).replace('"', '\\"'))
        res = None
    # (b) the real functions on every enumerated value
    rep_path = os.path.join(d, "replay.json")
    nsh = cf["shards"] if only_values is None else 1
    C.harness("escape-run", ["replay", out, rep_path, os.path.join(d, "mc"), nsh], timeout=cf["tmo"])
    rep = C.load(rep_path)
    os.remove(out)
    if res is not None and rep["counters"].get("vectors", 0) != res["distinct"]:
        chk.tool_error("vector count %s differs from TLC's distinct states %s" % (rep["counters"].get("vectors"), res["distinct"]))
    chk.report(rep, "harness: a function under test panicked (values enumerated by MCEscape)")
    mc_paths = shard_paths(os.path.join(d, "mc"), nsh)
    # (c) the laws on what they returned
    bad += validate(chk, mc_paths, "values enumerated by MCEscape", cf["tmo"])
    if only_values is None:
        chk.exhaustive = True
        chk.rule.append(
            "one record per state of MCEscape = per value v: all strings of <=2 symbols over 0x00-0x7F + {U+00E9, U+20AC, U+1F600}, "
            "all strings of <=%d symbols over {NUL,space,#,\",+,comma,;,<,=,>,\\,*,(,),a}%s; the record holds what ldap_escape, "
            "ldap_unescape, parse_filter and dn_escape returned and TLC evaluates L1-L4 on it with the spec's own parsers; "
            "non-trivial = v contains a filter/DN metacharacter, a positional space/#, a control or a non-ASCII character, "
            "distinct by the octets of v"
            % ((4, "") if tier == "quick" else (5, ", strings of 3 symbols over the full range with at most one symbol outside a 36-symbol sample")))
        rtr = os.path.join(d, "trace-gen.json")
        C.harness("escape-run", ["trace", os.path.join(d, "rnd"), cf["rand"], rtr, cf["shards"]], timeout=cf["tmo"])
        g = C.load(rtr)
        chk.report(g, "harness: a function under test panicked (random values)")
        rnd_paths = shard_paths(os.path.join(d, "rnd"), cf["shards"])
        bad += validate(chk, rnd_paths, "seeded random Unicode strings", cf["tmo"])
        chk.rule.append(
            "plus seeded random strings of 1-12 (10%: 13-40) Unicode scalar values (metacharacters 30%, controls, 2/3/4-octet "
            "characters, encoding-length boundaries, metacharacters forced at the first/last position, embedded \\XX look-alikes), "
            "each containing a character outside the enumerated alphabets when shorter than 6, through the same trace specification")
        # binding self-test: corrupted records must be rejected by TraceEscape
        selftest(chk, mc_paths, corrupt_fe, "filter-escape-omitted")
        selftest(chk, mc_paths, corrupt_de, "dn-trailing-space-unescaped")
        selftest(chk, mc_paths, corrupt_ber, "parse_filter-ber-last-octet")
        for p in rnd_paths:
            os.remove(p)
    for p in mc_paths:
        os.remove(p)
    shutil.rmtree(os.path.join(d, "tmp"), ignore_errors=True)
    for key, case in classify_all(bad):
        chk.problem(key, case, "TraceEscape rejected records produced by the real functions (laws L1-L4 of spec/Escape.tla)")
    chk.assumptions += [
        "TLC and the CommunityModules Json reader are correct",
        "spec/Escape.tla transcribes the string grammars of RFC 4515 section 3 and RFC 4514 section 3 (strict form) correctly; it is "
        "cross-checked by MCEscape: three reference escaping styles satisfy the laws and unescaped embedding satisfies them "
        "exactly when Needs*Esc is false",
        "an '=' in an RDN value may be escaped or not (RFC 4514 lists it in <special> but not among the characters that must be escaped)",
        "parse_filter's Tag is serialised with lber's encoder (checked by C07); the spec decodes the octets independently",
    ]
    return chk.finish()


def replay(path):
    r = C.load(path)
    vals = [c["v"] for c in r.get("case", {}).get("cases", []) if "v" in c]
    if not vals:
        print("replay of %s: class %s has no recorded value; re-running the quick check" % (path, r.get("key")))
        return run("quick")
    print("replay of %s: class %s; re-running %d recorded value(s) through the real functions and TraceEscape"
          % (path, r.get("key"), len(vals)))
    ev = os.path.join(C.EVID, "C09.json")
    keep = open(ev).read() if os.path.exists(ev) else None
    try:
        return run("quick", only_values=vals)
    finally:                      # a replay of a few values is not evidence for the property: keep the last full run's file
        if keep is not None:
            with open(ev, "w") as f:
                f.write(keep)
        elif os.path.exists(ev):
            os.remove(ev)
