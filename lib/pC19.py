"""C19 - control and extended-operation values round-trip through their codecs.
 (a) TLC checks decode(encode(v)) = v for every response codec and the control envelope of spec/Controls.tla over
     the field pools and every alternative definite length form (MCControls);
 (b) every state of that run is a vector: request controls / exops (fields -> expected OID, criticality, value
     bytes), response values (bytes in all length forms -> expected struct), control lists through the LDAPMessage
     envelope in both directions; controls-run replays them into ldap3's public API (S -> I);
 (c) seeded random field values and randomly length-encoded response values go through ldap3 and TLC recomputes
     every (input, output) pair (TraceControls, I -> S)."""
import json, os, re
import common as C

CFG = {"quick": ("MCControls_quick.cfg", 6000, 240), "thorough": ("MCControls_thorough.cfg", 40000, 2400)}

REQUIRED = ["req:PagedResults", "req:SyncRequest", "req:PreRead", "req:PostRead", "req:Assertion", "req:MatchedValues",
            "req:ProxyAuth", "req:TxnSpec", "req:ManageDsaIt", "req:RelaxRules", "req:critical",
            "exop:WhoAmI", "exop:PasswordModify", "exop:StartTxn", "exop:EndTxn",
            "resp:PagedResults", "resp:SyncState", "resp:SyncDone", "resp:SyncInfo", "resp:PreReadResp", "resp:PostReadResp",
            "resp:WhoAmIResp", "resp:PasswordModifyResp", "resp:StartTxnResp",
            "envenc:len0", "envenc:len1", "envenc:len2", "envenc:len3", "envdec:encodings"]


def b8(v):
    try:
        return int.from_bytes(bytes(v), "big", signed=True)
    except Exception:
        return 0


def classify(r):
    """Class key of a record TraceControls rejected (same vocabulary as the replay keys)."""
    d, k = r.get("d"), r.get("kind", "Envelope")
    if "panic" in r:
        return "trace:%s:%s:panic" % (d, k)
    f = r.get("f", {})
    if d == "req":
        out = r.get("out", {})
        cls = ""
        if k == "PagedResults":
            cls = ":size<0" if b8(f.get("size", [])) < 0 else ":size>=0"
        elif k == "SyncRequest":
            cls = ":cookie=%s,reload=%s" % (str(f.get("hascookie")).lower(), str(f.get("reload")).lower())
        return "trace:req:%s:critical=%s%s" % (k, str(r.get("critical")).lower(), cls) if out else "trace:req:%s" % k
    if d == "exop":
        cls = ""
        if k == "EndTxn":
            cls = ":commit=%s" % str(f.get("commit")).lower()
        elif k == "PasswordModify":
            cls = ":user=%s,old=%s,new=%s" % tuple(str(f.get(x)).lower() for x in ("hasuser", "hasold", "hasnew"))
        return "trace:exop:%s%s" % (k, cls)
    if d == "resp":
        ch = r.get("parsed", {}).get("choice")
        return "trace:resp:%s%s" % (k, ":" + ch if ch else "")
    return "trace:%s" % d


def run(tier):
    chk = C.Check("C19", "model_checking", tier)
    C.build_harness()
    cfg, ntrace, tmo = CFG[tier]
    d = chk.dir
    # (a) + (b)
    out = os.path.join(d, "mccontrols.out")
    res = C.tlc("MCControls", cfg, out, workers=8, timeout=tmo)
    chk.model("MCControls/" + cfg, res)
    seeds = 0
    with open(out, errors="replace") as f:
        for line in f:
            if line.startswith("<<"):
                continue
            m = re.match(r"Finished computing initial states: (\d+) distinct state", line)
            if m:
                seeds = int(m.group(1))
                break
    rep_path = os.path.join(d, "replay.json")
    C.harness("controls-run", ["replay", out, rep_path], timeout=tmo)
    rep = C.load(rep_path)
    os.remove(out)
    cnt = rep.get("counters", {})
    if res["ok"] and cnt.get("vectors", 0) != res["distinct"] - seeds:
        chk.tool_error("vector count %s differs from TLC's value states %s (distinct %s - %s seeds)"
                       % (cnt.get("vectors"), res["distinct"] - seeds, res["distinct"], seeds))
    missing = [k for k in REQUIRED if cnt.get(k, 0) == 0]
    if missing:
        chk.tool_error("vacuous run: no vector of class(es) %s" % ", ".join(missing))
    chk.report(rep, "S->I replay of MCControls vectors into ldap3::controls / ldap3::exop / the message codec")
    chk.exhaustive = True
    chk.rule.append("S->I: one vector per value state of MCControls (all combinations of the field pools per control/exop; "
                    "each response value in the minimal form, every uniform long form and every single-node long form; "
                    "control lists of 0-3 controls through the envelope, both directions); an evaluation = one request "
                    "conversion, one parsed encoding or one envelope encode/decode; non-trivial = value bytes longer than "
                    "an empty SEQUENCE / non-empty control list, distinct by expected or input bytes")
    # (c)
    tr = os.path.join(d, "impl.ndjson")
    trep = os.path.join(d, "trace-gen.json")
    C.harness("controls-run", ["trace", tr, ntrace, trep])
    g = C.load(trep)
    chk.report(g, "I->S generation")
    C.validate_records(chk, "TraceControls", "TraceControls.cfg", tr, os.path.join(d, "tracecontrols.out"), classify,
                       "I->S: TraceControls rejected records produced by ldap3", timeout=tmo)
    chk.rule.append("I->S: seeded random i32 sizes (incl. i32::MIN/MAX), cookies up to 700 octets, random filters of depth <= 3 "
                    "from all RFC 4511 filter choices, random UTF-8 strings, response values and messages written with random "
                    "definite length forms; every (fields, emitted control/exop) and (bytes, parsed struct) pair recomputed by TLC")

    def corrupt_req(r):
        if r.get("d") == "req" and r.get("out", {}).get("hasval") and len(r["out"]["val"]) > 2:
            r = json.loads(json.dumps(r))
            r["out"]["val"][-1] = (r["out"]["val"][-1] + 1) % 256
            return r
        return None

    def corrupt_crit(r):
        if r.get("d") == "envdec" and r.get("parsed", {}).get("ctrls"):
            r = json.loads(json.dumps(r))
            c = r["parsed"]["ctrls"][0]
            c["crit"] = not c["crit"]
            return r
        return None

    def corrupt_resp(r):
        if r.get("d") == "resp" and r.get("kind") == "SyncDone":
            r = json.loads(json.dumps(r))
            r["parsed"]["rd"] = not r["parsed"]["rd"]
            return r
        return None
    C.selftest_record(chk, "TraceControls", "TraceControls.cfg", tr, corrupt_req, "flip-value-byte")
    C.selftest_record(chk, "TraceControls", "TraceControls.cfg", tr, corrupt_crit, "flip-decoded-criticality")
    C.selftest_record(chk, "TraceControls", "TraceControls.cfg", tr, corrupt_resp, "flip-refreshDeletes")
    os.remove(tr)
    chk.assumptions += ["TLC and the CommunityModules Json reader are correct",
                        "spec/Controls.tla transcribes the OIDs, criticality rules and ASN.1 of RFC 2696, 4533, 4527, 4528, 3876, "
                        "4370, 5805, 3296, 4532, 3062, draft-zeilenga-ldap-relax and RFC 4511 4.1.11 correctly (hand-assembled byte "
                        "anchors are ASSUMEd in MCControls; the decoders are written independently of the encoders)",
                        "response values are restricted to what the library's structs can represent (UTF-8 strings, sizes 0..2^31-1, "
                        "distinct attribute types, value present); PreRead/PostRead/MatchedValues cannot be marked critical "
                        "through the public API and are checked with the default criticality only",
                        "the harness maps JSON fields to the public structs field by field; lber::parse::parse_tag is used to "
                        "hand the IntermediateResponse to parse_syncinfo as the library's own decoder would"]
    return chk.finish()


def replay(path):
    r = C.load(path)
    print("replay of %s: class %s; re-running the quick check" % (path, r.get("key")))
    return run("quick")
