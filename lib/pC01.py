"""C01 - responses are routed to the operation whose message ID they carry."""
import connlane as L

MC = {"quick": [("mc-routing", "MCLdapConn", "MCConn_c01_quick.cfg", 600, 8)],
      "thorough": [("mc-routing", "MCLdapConn", "MCConn_c01_thorough.cfg", 3000, 12),
                   ("mc-3ops", "MCLdapConn", "MCConn3_roles.cfg", 3000, 12)]}
PROFILES = {"quick": [("plain", 120), ("orphans", 120), ("burst", 120), ("long", 40), ("drops", 120)],
            "thorough": [("plain", 1500), ("orphans", 1500), ("burst", 1500), ("long", 400), ("mixed", 1500), ("drops", 1500)]}
SCRIPTS = {"quick": ("GenConn_len4.cfg", 8), "thorough": ("GenConn_len5.cfg", 10)}
RULE = ("model: every interleaving of two operations of any kind (three with fixed roles in thorough) with the server answering in any "
        "order, orphan responses, ID counter at 0 and next to the wrap point; implementation: seeded scenarios with 2-8 concurrent "
        "operations over cloned handles, responses in random order and random chunking, unsolicited responses, bursts of stimuli "
        "without settling (seeded select! races); every returned token must be the one the server sent under the caller's own "
        "wire ID, in order; a scenario is non-trivial when >= 2 operations overlap; profile 'drops': callers walk away (a dropped "
        "future, a stream dropped without finish()) so that late responses for them arrive while other operations are running - "
        "a routing entry the model keeps, the code has dropped and whose caller still listens is `effect:lost-route`")


def run(tier):
    return L.run_lane("C01", tier, MC[tier], PROFILES[tier], RULE, scripts=SCRIPTS[tier], selftests=[("token", L.corrupt_token, "route")])


def replay(path):
    return L.replay("C01", path, run)
