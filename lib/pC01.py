"""C01 - responses are routed to the operation whose message ID they carry."""
import connlane as L

MC = {"quick": [("mc-routing", "MCLdapConn", "MCConn_c01_quick.cfg", 600, 8)],
      "thorough": [("mc-routing", "MCLdapConn", "MCConn_c01_thorough.cfg", 3000, 12),
                   ("mc-3ops", "MCLdapConn", "MCConn3_roles.cfg", 3000, 12)]}
PROFILES = {"quick": [("plain", 120), ("orphans", 120), ("burst", 120), ("long", 40), ("drops", 120), ("split", 120)],
            "thorough": [("plain", 1500), ("orphans", 1500), ("burst", 1500), ("long", 400), ("mixed", 1500), ("drops", 1500), ("split", 1500)]}
SCRIPTS = {"quick": ("GenConn_len4.cfg", 8), "thorough": ("GenConn_len5.cfg", 10)}
RULE = ("model: every interleaving of two operations of any kind (three with fixed roles in thorough) with the server answering in any "
        "order, orphan responses, ID counter at 0 and next to the wrap point; implementation: seeded scenarios with 2-8 concurrent "
        "operations over cloned handles, responses in random order and random chunking, unsolicited responses, bursts of stimuli "
        "without settling (seeded select! races); every returned token must be the one the server sent under the caller's own "
        "wire ID, in order; a scenario is non-trivial when >= 2 operations overlap; profile 'drops': callers walk away (a dropped "
        "future, a stream dropped without finish()) so that late responses for them arrive while other operations are running - "
        "a routing entry the model keeps, the code has dropped and whose caller still listens is `effect:lost-route`")


FLOOD = {"quick": 1200, "thorough": 3000}


def extra(chk):
    """A caller that lags: the server sends more items for one search than any plausible internal queue bound holds while the
    caller does not read (another operation is served in between); then the caller reads everything. Validated like any trace:
    every item, in the server's order (Routing)."""
    import os, json
    import common as C
    n = FLOOD[chk.tier]
    tr = os.path.join(chk.dir, "flood.ndjson")
    rp = os.path.join(chk.dir, "flood.json")
    C.harness("conn-run", ["flood", tr, n, rp])
    rep = C.load(rp)
    chk.report(rep, "flood")
    if rep["counters"].get("flood_scripts_followed", 0) != 2:
        chk.tool_error("the flood scripts were not followed to the end")
    nev, diags, res = L.validate(chk, tr)
    chk.traces += rep["evaluations"]
    events = [json.loads(l) for l in open(tr)]
    got = sum(1 for e in events if e["ev"] == "RetNext" and e.get("r") == "item")
    if got < 2 * n and not diags:
        chk.tool_error("flood: only %d items were handed out and the model did not object" % got)
    owned = {}
    for idx, tag in diags:
        own = L.owner_of(tag, events, idx)
        if own == "C01" or (isinstance(own, tuple) and "C01" in own):
            owned.setdefault(tag, []).append(idx)
        else:
            chk.notes.append("flood: difference owned by %s: %s at event %d" % (L._own_str(own), tag, idx))
    chk.extra.setdefault("trace_validation", []).append(dict(profile="flood", scenarios=2, events=nev, items_per_search=n + 5,
                                                             diag_owned={k: len(v) for k, v in owned.items()}))
    for tag, idxs in owned.items():
        sd, k, j0 = L.scenario_of(events, idxs[0])
        chk.problem("flood:" + tag, dict(count=len(idxs), event=events[idxs[0] - 1], before=events[max(j0, idxs[0] - 6):idxs[0] - 1]),
                    "I->S: TraceLdapConn on the flood scenario")
    chk.rule.append("flood: one direct and one adapted search with %d items sent while the caller does not read, a single operation "
                    "served in between, 20 items read, 5 more and the final result sent, everything read to the end" % (n + 5))
    os.remove(tr)


def run(tier):
    return L.run_lane("C01", tier, MC[tier], PROFILES[tier], RULE, scripts=SCRIPTS[tier], selftests=[("token", L.corrupt_token, "route")], extra=extra)


def replay(path):
    return L.replay("C01", path, run)
