"""Dev-time helper of the C20 lane: prints the byte-tuple pool definitions (Bases, Filters, AttrLists, ScopeWords,
ExtSingles) that are pasted into spec/MCUrl.tla between the CONSTANTS and the Hosts definition. Edit the lists here,
run `python3 lib/pC20_pools.py`, replace the block in MCUrl.tla, and adjust the index sets in spec/MCUrl_*.cfg.
Comments must not contain the two-character comment terminator of TLA+ (star, right parenthesis)."""
def tup(b):
    return "<<" + ",".join(str(x) for x in b) + ">>"
def show(b):
    return "".join(chr(x) if 32 <= x < 127 else "\\x%02X" % x for x in b)
def B(s):
    return s.encode("utf-8") if isinstance(s, str) else bytes(s)
bases = [B(""), B("dc=example,dc=com"), B("cn=a?b,o=x y"), B("cn=50%+#1,o=é"), B("ou=a/../b,o=%41"), B("cn=€𝄞"),
         B("cn=") + b"\xff", B("cn=") + b"\xed\xa0\x80", B("cn=") + b"\xc3", B("o=a;b&c'd(e)*!$:@[]")]
filters = [B(""), B("(cn=a)"), B("(&(a=b?c)(d=e,f))"), B("(|(cn=50%)(x=#1 +2))"), B("(o=é*)"), B("(cn=") + b"\xff" + B(")"),
           B("(objectClass=*)"), B("(a=\\2a%3F)"), B("(cn=") + b"\xc0\x80" + B(")"), B("(!(a:dn:=x/y))")]
attrs = [[], [B("cn")], [B("cn"), B("sn;lang-de"), B("2.5.4.3")], [B("*"), B("+")], [B("1.1")], [B("a,b"), B("c")],
         [B("x?y"), B("z%2Cw")], [B("mail"), B("é")]]
scopes = [B(""), B("base"), B("one"), B("sub"), B("subtree"), B("BASE"), B("One"), B("bas"), B("onelevel")]
OIDC = "1.3.6.1.4.1.10094.1.5.1"; OIDS = "1.3.6.1.4.1.10094.1.5.2"; OIDT = "1.3.6.1.4.1.1466.20037"
exts = [  # crit, name, hasval, val
 (0, "bindname", 1, B("cn=a,dc=b")),
 (1, "BindName", 1, B("cn=x?y,o=é%")),
 (0, "x-bindpw", 1, B("p%41=w#,+ z")),
 (0, "X-BINDPW", 0, B("")),
 (1, OIDC, 1, B("s3cr=t")),
 (0, OIDS, 1, B("EXTERNAL")),
 (0, OIDT, 0, B("")),
 (1, OIDT, 0, B("")),
 (0, "x-foo", 1, B("bar,baz")),
 (1, "x-foo", 1, B("1")),
 (0, "e-bar", 0, B("")),
 (0, "bindname", 1, b"\xff"),
 (0, "x-foo", 1, b"\xff"),
 (0, "bindnam", 1, B("v")),
 (0, "1.3.6.1.4.1.10094.1.5.3", 1, B("v")),
 (0, "bindname", 1, B("")),
 (1, "bindnamex", 1, B("v")),
 (1, OIDS, 1, B("GSSAPI")),
 (1, "X-BindPW", 1, B("pw,2")),
 (0, OIDC, 1, B("a=b=c")),
 (0, "BINDNAME", 1, B("cn=z")),
]
def seqdef(name, items, f):
    print("%s == <<" % name)
    for i, it in enumerate(items):
        print("  %s%s   \\* %d: %s" % (f(it), "," if i + 1 < len(items) else " ", i + 1, cmt(it)))
    print(">>")
def cmt(it):
    if isinstance(it, (bytes, bytearray)):
        return '"%s"' % show(it)
    if isinstance(it, list):
        return "[" + ", ".join('"%s"' % show(x) for x in it) + "]"
    c, n, h, v = it
    return "%s%s%s" % ("!" if c else "", n, ("=" + show(v)) if h else "")
seqdef("Bases", bases, tup)
seqdef("Filters", filters, tup)
seqdef("AttrLists", attrs, lambda l: "<<" + ", ".join(tup(x) for x in l) + ">>")
seqdef("ScopeWords", scopes, tup)
seqdef("ExtSingles", exts, lambda e: "[crit |-> %s, name |-> %s, hasval |-> %s, val |-> %s]" % ("TRUE" if e[0] else "FALSE", tup(B(e[1])), "TRUE" if e[2] else "FALSE", tup(e[3])))
