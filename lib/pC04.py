"""C04 - every operation terminates; losing the connection fails all pending work."""
import connlane as L

MC = {"quick": [("mc-faults", "MCLdapConn", "MCConn_c04_quick.cfg", 900, 8)],
      "thorough": [("mc-faults", "MCLdapConn", "MCConn_c04_quick.cfg", 900, 12),
                   ("mc-liveness", "MCLdapConn", "MCConn_c04_live.cfg", 3400, 12)]}
PROFILES = {"quick": [("faults", 300), ("mixed", 100)],
            "thorough": [("faults", 5000), ("mixed", 2000)]}
SCRIPTS = {"quick": ("GenConn_faults5.cfg", 6), "thorough": ("GenConn_faults5.cfg", 1)}
RULE = ("model: server close / reset / undecodable frame / write failure / unbind / last handle dropped allowed at every point; "
        "FailFast, NotStuck (no state with a dead connection, a waiting caller and no enabled internal step), UnbindCloses, "
        "DeliveredSurvives; thorough adds Termination under weak fairness; implementation: a fault of each kind injected at a random "
        "point of seeded scenarios; a virtual-time watchdog turns a future that never completes into a Hang event, a panic into a "
        "Panic event; neither is explained by any action of the model")


def run(tier):
    return L.run_lane("C04", tier, MC[tier], PROFILES[tier], RULE, scripts=SCRIPTS[tier], selftests=[("data-after-exit", L.corrupt_failfast, "core:Ret")])


def replay(path):
    return L.replay("C04", path, run)
