"""C04 - every operation terminates; losing the connection fails all pending work."""
import connlane as L

# (the quick instance is the one with a peer that may stop reading: its behaviours include those of MCConn_c04_quick.cfg)
MC = {"quick": [("mc-faults-stall", "MCLdapConn", "MCConn_c04_stall.cfg", 900, 8)],
      "thorough": [("mc-faults", "MCLdapConn", "MCConn_c04_quick.cfg", 900, 12),
                   ("mc-faults-stall", "MCLdapConn", "MCConn_c04_stall.cfg", 900, 12),
                   ("mc-liveness", "MCLdapConn", "MCConn_c04_live.cfg", 3000, 12)]}
PROFILES = {"quick": [("faults", 300), ("mixed", 100), ("stallfaults", 200)],
            "thorough": [("faults", 5000), ("mixed", 2000), ("stallfaults", 3000)]}
SCRIPTS = {"quick": [("GenConn_faults5.cfg", 6), ("GenConn_unbind4.cfg", 20)], "thorough": [("GenConn_faults5.cfg", 1), ("GenConn_unbind4.cfg", 2)]}
RULE = ("model: server close / reset / undecodable frame / write failure / unbind / last handle dropped allowed at every point; "
        "FailFast, NotStuck (no state with a dead connection, a waiting caller and no enabled internal step), UnbindCloses, "
        "DeliveredSurvives; thorough adds Termination under weak fairness; implementation: a fault of each kind injected at a random "
        "point of seeded scenarios; a virtual-time watchdog turns a future that never completes into a Hang event, a panic into a "
        "Panic event; neither is explained by any action of the model")


def extra(chk):
    """Fault enumeration: every byte offset of the response stream x {eof, reset} (garbage at frame boundaries), every byte
    offset of the request stream x write failure, on four base scenarios."""
    import os, json
    import common as C
    tr = os.path.join(chk.dir, "faultenum.ndjson")
    rp = os.path.join(chk.dir, "faultenum.json")
    C.harness("conn-run", ["faultenum", tr, 1, rp])
    rep = C.load(rp)
    chk.report(rep, "fault enumeration")
    n, diags, res = L.validate(chk, tr)
    chk.traces += rep["evaluations"]
    events = [json.loads(l) for l in open(tr)]
    owned = {}
    for idx, tag in diags:
        own = L.owner_of(tag, events, idx)
        if own == "C04" or (isinstance(own, tuple) and "C04" in own):
            owned.setdefault(tag, []).append(idx)
        else:
            chk.notes.append("fault enumeration: difference owned by %s: %s at event %d" % (L._own_str(own), tag, idx))
    chk.extra.setdefault("trace_validation", []).append(dict(profile="faultenum", scenarios=rep["evaluations"], events=n,
                                                             diag_owned={k: len(v) for k, v in owned.items()}))
    for tag, idxs in owned.items():
        sd, k, j0 = L.scenario_of(events, idxs[0])
        chk.problem("faultenum:" + tag, dict(count=len(idxs), event=events[idxs[0] - 1], scenario=events[j0:idxs[0]][-25:]),
                    "I->S: TraceLdapConn on the fault enumeration")
    chk.rule.append("fault enumeration: 4 base scenarios (pending single operations, direct and adapted streams mid-way, an operation "
                    "whose result was already delivered, a timed operation); the concatenated response bytes are cut at EVERY byte "
                    "offset by an orderly close and by a reset (a frame cut short is an undecodable frame), by a non-LDAP element at "
                    "every frame boundary, and the request bytes at every offset by a write failure; each run is one validated trace")


def extra_setup(chk):
    """The exchange that precedes the driver loop is an operation too: with StartTLS the library sends an extended request and
    waits for its response in the driver's single-operation mode. Every adversary script of the establishment machine
    (spec/Setup.tla, TLC: MCSetupEst; C17 owns the machine) is played against LdapConnAsync::with_settings; here only
    termination is judged: where the machine says Failed (close, hang-up, a non-LDAP element, a reply under another
    message ID, a refusal ...) the call must return, not stay pending."""
    import os
    import common as C
    import setuplane as S
    out = os.path.join(chk.dir, "mcest.out")
    res = C.tlc("MCSetupEst", "MCSetupEst_dial.cfg", out, workers=4, timeout=300, heap="2g")
    chk.model("MCSetupEst/MCSetupEst_dial.cfg", res)
    rp = os.path.join(chk.dir, "est-replay.json")
    ob = os.path.join(chk.dir, "est-obs.ndjson")
    C.harness("setup-run", ["replay", "est", out, rp, ob], timeout=3000, env={"VERIF_SETUP_DIR": S.workdir(chk), "SETUP_WARMUP": "noverify"})
    rep = C.load(rp)
    for x in (out, ob):
        if os.path.exists(x):
            os.remove(x)
    hangs = {k: v for k, v in rep.get("mismatch_by_key", {}).items() if ":hang:" in k}
    kept = {}
    for m in rep.get("mismatches", []):
        kept.setdefault(m["key"], []).append(m["case"])
    for k, n in hangs.items():
        chk.problem("setup:" + k.split(":", 1)[1], dict(count=n, cases=kept.get(k, [])[:3]),
                    "S->I: adversary scripts of MCSetupEst played against LdapConnAsync::with_settings (termination only)")
    others = {k: v for k, v in rep.get("mismatch_by_key", {}).items() if k not in hangs}
    if others:
        chk.notes.append("establishment: differences owned by C17/C18/C13 (not this property): %s" % json_keys(others))
    cnt = rep.get("counters", {})
    chk.evaluations += rep["evaluations"]
    chk.extra["establishment_termination"] = dict(scripts=cnt.get("vectors", 0), hangs=sum(hangs.values()),
                                                  results={k[7:]: v for k, v in cnt.items() if k.startswith("result_")})
    if cnt.get("vectors", 0) == 0 or cnt.get("resp_wrongid", 0) == 0 or cnt.get("resp_close", 0) == 0:
        chk.tool_error("the establishment replay observed no faulty StartTLS exchange (vacuous)")
    chk.rule.append("establishment: every adversary script of MCSetupEst (StartTLS response in {success, refusal, non-LDAP element, "
                    "close, hang-up, other message ID, silence} x handshake outcomes x timeout none/short) played against "
                    "with_settings; a call still pending where the machine requires Failed is a hang")
    S.cleanup(chk)


def extra_stream(chk):
    """A Search pending when the connection fails, seen through the calls its caller makes: next() under every adapter chain,
    a complete read, and Ldap::search(), which reads the stream itself. TLC (MCStream_c04.cfg over spec/SearchStream.tla; C10
    owns that specification) enumerates the server closing at every position of one- to three-page scripts; where the model
    ends a call with an error and the code returns anything else, that is a pending operation not told of the failure."""
    import os
    import common as C
    import streamlane
    out = os.path.join(chk.dir, "mcstream-c04.out")
    res = C.tlc("MCStream", "MCStream_c04.cfg", out, workers=4, timeout=900, heap="2g")
    chk.model("MCStream/MCStream_c04.cfg", res)
    rp = os.path.join(chk.dir, "stream-replay.json")
    C.harness("stream-run", ["replay", out, rp], timeout=900)
    os.remove(out)
    rep = C.load(rp)
    mine, rest = streamlane._own_view(rep, "c04:")
    mine["lane"] = "stream-replay (the server closes at every position)"
    chk.report(mine, "S->I: MCStream_c04 behaviours (connection lost under next / drain / search())")
    streamlane._note_rest(chk, rest, "S->I MCStream_c04.cfg")
    cnt = rep["counters"]
    n_err = cnt.get("impl-error:EndOfStream", 0)
    chk.extra["stream_connection_loss"] = dict(behaviours=rep["evaluations"], end_of_stream_errors=n_err)
    if res["ok"] and (n_err == 0 or cnt.get("chain:PR", 0) == 0):
        chk.tool_error("vacuity: the stream lane observed no EndOfStream error / no paged chain (%s)" % sorted(k for k in cnt if k.startswith("impl-error")))
    chk.rule.append("stream lane: %d behaviours - the server closes the connection at every position of one- to three-page scripts, "
                    "under the five adapter chains (next, complete read, finish) and under Ldap::search(); a call the model ends with "
                    "an error must not return a result or the end of the stream" % rep["evaluations"])


def json_keys(d):
    return ", ".join("%s x%d" % kv for kv in sorted(d.items()))


def extra_transports(chk):
    """`UnbindCloses` on the real transports (the connection lane runs on the in-process one): TCP dialled and pre-connected,
    TLS, Unix socket by path and pre-connected. The peer does not close on reading the UnbindRequest; it must read end-of-file,
    and a later operation on the handle must fail."""
    import os
    import common as C
    import setuplane as S
    rp = os.path.join(chk.dir, "unbind-closes.json")
    C.harness("setup-run", ["unbind-closes", rp], timeout=300, env={"VERIF_SETUP_DIR": S.workdir(chk)})
    rep = C.load(rp)
    chk.report(rep, "Unbind on the real transports (peer waits for end-of-file)")
    cnt = rep.get("counters", {})
    if cnt.get("not-exercised", 0) or cnt.get("closed-and-failing-fast", 0) + rep["mismatch_total"] < 5:
        chk.tool_error("unbind-closes: not every transport variant could be exercised: %s" % "; ".join(rep.get("notes", [])[:3]))
    chk.rule.append("transports: bind, unbind, wait - on TCP (dialled, pre-connected), TLS, Unix socket (by path, pre-connected) the "
                    "peer, which does not close on the UnbindRequest, reads end-of-file and a later operation fails")
    S.cleanup(chk)


def extra_all(chk):
    extra(chk)
    extra_setup(chk)
    extra_transports(chk)
    extra_stream(chk)


def run(tier):
    return L.run_lane("C04", tier, MC[tier], PROFILES[tier], RULE, scripts=SCRIPTS[tier], selftests=[("data-after-exit", L.corrupt_failfast, "core:Ret")], extra=extra_all)


def replay(path):
    return L.replay("C04", path, run)
