#!/usr/bin/env python3
"""Regenerates /verif/MANIFEST.json from the table below (single source of truth for the interface file)."""
import json, os
V = os.path.dirname(os.path.dirname(os.path.abspath(__file__)))

CONN_NOTE = ("Trusts TLC, Tokio's current-thread scheduler / paused clock / seeded select!, the mock transport and scripted server of the "
             "harness, and that the guarded hooks sit at the linearization points (corruption self-tests). Exhaustive for the bounded model "
             "instance; the implementation is sampled by seeded scenarios, each validated event by event against the same specification.")
CHECKS = {
 "C01": dict(cat="model_checking", tech="TLA+ model of the connection (LdapConn.tla) checked by TLC + trace validation of the real driver (TraceLdapConn.tla)",
      text="TLC exhausts every interleaving of two operations of any kind (three with fixed roles in thorough) with arbitrary server order and orphan responses against the Routing invariant; seeded concurrent scenarios of the real driver are recorded at hook points and validated as behaviours of the same spec, every returned token bound to what the server sent under the caller's wire ID.",
      note=CONN_NOTE, ref="6/C01, 3.2, 4"),
 "C02": dict(cat="model_checking", tech="TLA+ transcription of the RFC 4511 request ASN.1 (Ldap4511.tla over Ber.tla/Filter4515.tla/Controls.tla) + sequential handle model (LdapSeq.tla, ModsOneShot); TLC enumerates request models and call histories, the bytes the scripted server read are decoded by TLC (TraceLdapSeq.tla)",
      text="Every operation x argument shape x 0-2 controls is enumerated by TLC with the PDU the ASN.1 prescribes and compared byte for byte (multisets for SET OF) with what a real Ldap handle wrote to the mock transport; call histories of up to three rounds with every modifier combination check that controls, timeout and search options affect exactly the next operation; random calls are validated in the other direction with DecodeRequest evaluated by TLC.",
      note="Trusts TLC, the ASN.1 transcription (DecodeRequest(Enc(Request(r))) = r on the spec) and the harness projection. GSSAPI/NTLM binds are feature-gated off and out of scope; with_controls(vec![]) may be sent as an empty element or omitted.", ref="6/C02, 3.3"),
 "C03": dict(cat="model_checking", tech="TLA+ transcription of the RFC 4511 response ASN.1 (Ldap4511.tla): every response model in minimal and non-minimal definite length forms served to a real call; returned structs and helper outcomes compared; TraceLdapSeq.tla for random responses",
      text="All eight response kinds x result codes up to 2^31-1 x referrals x controls x extended name/value are enumerated; each model is encoded with every element in 1-4-octet length forms (95 632 encodings in quick) and answered to a real operation; LdapResult/CompareResult/ExopResult/SearchResult fields and success()/non_error()/equal() are compared with the model.",
      note="Trusts TLC, the ASN.1 transcription (DecodeResponse(AnyEnc(resp)) = resp on the spec) and the harness projection. serverSaslCreds is not publicly observable; non-UTF-8 text and malformed results are C11's.", ref="6/C03"),
 "C10": dict(cat="model_checking", tech="TLA+ model of SearchStream and the adapter chain (SearchStream.tla: Level(k) semantics of next/finish over direct, EntriesOnly, PagedResults chains); TLC enumerates scripts x call sequences, every behaviour replayed into the real SearchStream; TraceStream.tla for random behaviours",
      text="Server scripts (entries, references, intermediates, per-item controls, result codes, loss points) x all call sequences over next/finish/state up to length 6 x five adapter chains: TLC checks the item-order, finish-code and state-machine laws on the model and the real stream's every return value and state() is compared; search() as the derived operation; the connection lane adds stream tags from concurrent scenarios.",
      note="Trusts TLC, the model's reading of the documented call/state diagram, the mock transport. Timeouts on streams are covered in the connection lane (C12); Fresh is unobservable through the public API.", ref="6/C10, 3.3"),
 "C16": dict(cat="model_checking", tech="TLA+ model of the PagedResults adapter (SearchStream.tla with RFC 2696 paging): TLC enumerates page scripts x page sizes x cookies x call sequences; request log and results of the real adapter compared",
      text="Result sets over 1-3 pages, empty first page, short pages, error on a middle page, missing paging control, caller-supplied paging control, finish at every position: the SearchRequests the scripted server received (decoded independently: base, scope, filter, attributes, options, other controls, paging size and cookie) and the concatenated entries and final result are compared with the model, alone and chained with EntriesOnly.",
      note="Trusts TLC, the RFC 2696 reading, the independent request decoder of the harness. A server sending two paging controls in one result is left unspecified.", ref="6/C16"),
 "C17": dict(cat="fault_enumeration", tech="TLA+ establishment state machine with an adversarial server (Setup.tla: NoCleartextLdap, ReadyImpliesProtected, InjectedNeverParsed, FaultsFail) model-checked; every adversary script played by a real loopback TCP/TLS server against with_settings and the observation validated by TraceSetup.tla",
      text="All adversary behaviours during establishment (refuse StartTLS with any non-zero code, garbage, close, wrong ID, unsolicited message, cleartext injected before/with/after the StartTLS response, trusted/untrusted/wrong-name certificate, stall, refusal followed by a good handshake) x scheme x verification x connector x timeout: 344 scripts in quick, each a real exchange with certificates generated at run time; every byte received before the handshake is decoded and the outcome class checked.",
      note="Trusts TLC, OpenSSL's certificate validation (three outcomes realised with real certificates), loopback sockets and real time with generous margins (infrastructure problems are exit 2). tls-rustls is not built.", ref="6/C17, 3.5"),
 "C18": dict(cat="model_checking", tech="TLA+ decision table of connection setup (Setup.tla Decide + TableLaws) enumerated by TLC over the full cross product; each row instantiated with concrete URLs and settings against real loopback listeners for both APIs; random URLs validated by TraceSetup.tla",
      text="7 680 rows (scheme x host x port x ldapi path x pre-opened stream x StartTLS x timeout x endpoint) are checked for consistency by TLC and 2 320 observations per quick run record which listener or socket path received the connection or which error class came back, for LdapConnAsync and LdapConn, incl. default ports 389/636; random and mutated URL strings must never panic.",
      note="Trusts TLC, the url crate, loopback networking (a failed bind of 389/636 counts the rows as skipped). IPv6 literals cannot pass name verification under tls-native (fails closed, noted, not judged).", ref="6/C18, 3.5"),
 "C04": dict(cat="model_checking", tech="TLA+ model with transport faults (LdapConn.tla): TLC safety + liveness (Termination under weak fairness); fault-injected traces of the real code validated by TraceLdapConn.tla",
      text="Server close, reset, undecodable frame, write failure, unbind and last-handle drop are actions of the model enabled at every point; FailFast/NotStuck/UnbindCloses/DeliveredSurvives are checked exhaustively for two operations and Termination under fairness in thorough; the real code gets one fault of each kind at random points of seeded scenarios, with hangs and panics surfacing as events no action explains.",
      note=CONN_NOTE + " 'Never hangs' for the implementation is established up to the virtual-time watchdog horizon.", ref="6/C04"),
 "C12": dict(cat="model_checking", tech="TLA+ model with an explicit clock (LdapConn.tla, Tick/deadline) + trace validation under Tokio's paused clock",
      text="TimeoutExact (nobody waits past its deadline; a timer fires only at its deadline; per-item restart for searches) and TimeoutKeepsConn are checked by TLC over arrival times before/at/after the deadline; the real code runs under a paused clock advanced 1 ms at a time and every timeout return, late reply and later operation is bound to the model's clock.",
      note=CONN_NOTE + " Wall-clock accuracy of Tokio's timer wheel is not examined (virtual time only).", ref="6/C12"),
 "C13": dict(cat="model_checking", tech="TLA+ model of the routing tables and ID set (LdapConn.tla, NoLeak at quiescence) + snapshot-bound trace validation",
      text="NoLeak is checked by TLC over every interleaving of two operations incl. timeouts racing the request dequeue, abandons and early finish; the real driver's {used, resultmap, searchmap} snapshot after every turn is compared with the model's and the quiescent end state is read through an accessor.",
      note=CONN_NOTE, ref="6/C13"),
 "C05": dict(cat="model_checking", tech="TLA+ allocator (MsgId.tla: probing vs. declarative law, exhaustive for a 6-ID space) + LdapConn uniqueness invariants + trace validation of allocator events with the real MaxId, incl. a multi-thread stress run",
      text="TLC checks UniqueIds/WireUnique/IdRange/Protected over every interleaving of two operations with the counter at 0 and at the wrap point, and the allocator law for every (last, used) of a small cyclic space, each state replayed into the real next_msgid() next to 2^31-1; allocator events of seeded scenarios and of a 16-thread stress run (events ordered under the msgmap lock) must obey the same law with MaxId = 2147483647.",
      note=CONN_NOTE + " The schedule quantifier over real OS threads is sampled by the stress lane, not exhausted; a full 2^31 wrap with an ID still in flight is out of reach.", ref="6/C05"),
 "C08": dict(cat="model_checking", tech="TLA+ RFC 4515 recogniser and RFC 4511 filter encoder (Filter4515.tla): TLC classifies every string of bounded alphabets/lengths and renders ASTs with every escaping choice; parse_filter must agree on verdict and bytes; TraceFilter.tla for random/mutated strings",
      text="All strings over six filter-relevant alphabets up to length 5-7 (3.7 M in quick, 69 M in thorough) are classified by the spec as accept(bytes)/reject/either and compared with parse_filter (verdict, BER bytes, no panic); AST-driven vectors check Parse(Render(a)) = a on the spec and the bytes on the implementation; random and mutated strings are validated in the other direction.",
      note="Trusts TLC, the RFC 4515/4511 transcription (round-trip laws on the spec, independent DecodeFilter) and the harness projection. Single-number attribute types, raw ill-formed UTF-8 and upper-case :DN: may be accepted or rejected.", ref="6/C08"),
 "C06": dict(cat="model_checking", tech="TLA+ stream-decoder state machine (Framing.tla: Frame decided by the outer header and length only) - TLC enumerates message lists x ALL chunkings, every transition replayed through the real frame decoder; end-to-end delivery traces validated by TraceFraming.tla",
      text="For message lists of up to 3 messages from a pool (7-52 octets, controls, long-form lengths) TLC explores every chunking (the reachable space is quadratic in the stream length) and checks prefix/no-early/no-late/exact-suffix invariants; all 146 957 transitions are replayed through ldap3's decoder; end-to-end streams from 7 octets to 655 KB (1 MiB in thorough) are delivered byte-wise, whole, per message, split inside every header and randomly, and the sequence of deliveries after each chunk is validated.",
      note="Trusts TLC, Ber.tla, the mock transport, tokio-util's Framed read loop. The harness supplies prefix sums that the spec verifies (recursing over 10^4 run-length entries is quadratic in TLC).", ref="6/C06"),
 "C11": dict(cat="fault_enumeration", tech="TLA+ totality verdict for the frame decoder (Framing.tla: Msg / Bad / NeedMore / Either / Any) + MCHostile single-field mutation enumeration; vectors replayed through the real decoder and a live driver; stack lane in child processes; TraceHostile.tla for random strings",
      text="Every single-field mutation of six valid messages (each length -1/+1/+100/0/huge, each element removed, each tag's class/number/constructed bit changed, primitives emptied, truncation at every byte, message IDs out of range, unknown protocolOp, malformed controls) and all byte strings of length <= 2 (<= 3 in thorough: 16.8 M) get a verdict from the spec; the decoder must agree, never panic and never wait once the outer length is satisfied; 500 driver-level scenarios with two pending operations and an active search require Err from drive(), errors for every caller and nothing delivered afterwards; nesting depths up to 2^19 run in child processes whose exit status is the observation.",
      note="Trusts TLC, Ber.tla, process isolation for the stack lane (decode + drop on a 2 MiB thread, not a whole live driver). Memory exhaustion through huge announced lengths is not part of the statement. Panics of a caller task on a malformed protocolOp inside a well-formed envelope were fixed too but are reported as NOTEs only (the statement is about the driver).", ref="6/C11"),
 "C14": dict(cat="model_checking", tech="TLA+ sequential model of one handle given a script (LdapSeqSync.tla); TLC enumerates scripts over the whole LdapConn/EntryStream surface; each script runs through Ldap/SearchStream and LdapConn/EntryStream over real socket pairs against the same scripted server; TraceSync.tla requires equal wire bytes and return projections",
      text="2 841 TLC scripts of length <= 3 (every method x every modifier combination x server behaviour success / error code / entries / silence / disconnect) plus random longer scripts are executed twice; request bytes received by the server and return projections (value, error class, stream items, last_id, is_closed) must be identical step by step and conform to the model; a deviation both lanes share is a NOTE (not C14).",
      note="Trusts TLC, AF_UNIX sockets, real time only for the silence cases (outcome class compared, a difference must show in three consecutive runs). is_closed() after the peer went away while the blocking API is idle legitimately differs (the sync driver only runs inside calls); only the outcome class is compared there.", ref="6/C14"),
 "C07": dict(cat="model_checking", tech="TLA+ reference model of X.690 (Ber.tla): TLC checks round-trip/minimality laws, prints every state as a vector replayed into lber; lber-produced pairs validated by a trace spec",
      text="TLC exhausts a bounded space of tag trees, boundary lengths and 8-octet integer patterns: the X.690 laws are invariants of the spec, every explored state is replayed into lber (encode, parse with trailing bytes, every alternative definite length form), and random lber input/output pairs are recomputed by TLC. Exhaustive within the pools, sampled beyond.",
      note="Trusts TLC, the Json module, my transcription of X.690 (checked by its own laws) and the JSON<->StructureTag projection of the harness.", ref="6/C07"),
 "C09": dict(cat="model_checking", tech="TLA+ RFC 4515 / RFC 4514 parsers (Escape.tla): TLC enumerates values, the implementation's escaped output is judged by the spec's own parsers (TraceEscape.tla)",
      text="All strings of length <= 2 over 0x00-0x7F plus multi-byte symbols and all strings of length <= 4 over the metacharacter alphabet are enumerated by TLC; ldap_escape/dn_escape/ldap_unescape/parse_filter outputs are validated against the inertness laws with RFC parsers written in TLA+, so a different but correct escaping style passes and a dropped special fails.",
      note="Trusts TLC, the transcription of RFC 4515/4514 (cross-validated by three reference escaping styles on the spec) and the harness byte projection. '=' in DN values may be escaped or not (not must-escape in RFC 4514).", ref="6/C09"),
 "C15": dict(cat="model_checking", tech="TLA+ model of SearchEntry::construct with a UTF-8 well-formedness predicate (Entry.tla); vectors encoded by the spec's BER and replayed; random entries validated by TraceEntry.tla",
      text="Entries with <= 2 attributes x <= 3 values from a pool of valid and invalid UTF-8 byte strings are enumerated; the spec's invariants (exactly one map, multiset preserved, text iff all values well-formed) hold on the model and every vector is parsed by lber and passed through construct(); random larger entries go the other way.",
      note="Trusts TLC, the UTF-8 predicate (three independent formulations agree on every generated value) and the harness projection. Duplicate attribute types in one entry are outside the property.", ref="6/C15"),
 "C19": dict(cat="model_checking", tech="TLA+ table of control/exop codecs (Controls.tla over Ber.tla): expected OID/criticality/value from the RFC syntax, all length forms for responses, envelope round trip; TraceControls.tla for random values",
      text="Every request control and extended request of the library is encoded by the implementation for pooled field values and compared with the bytes the RFC syntax prescribes; every response value is presented in minimal and non-minimal length forms and the parsed struct compared; control lists go through the LDAPMessage envelope both ways.",
      note="Trusts TLC, the RFC transcription (hand-assembled byte anchors as ASSUMEs) and the harness projection. The response domain is what the library's structs can represent; EndTxnResp is not covered.", ref="6/C19"),
 "C20": dict(cat="model_checking", tech="TLA+ RFC 4516 formatter + independent reference reader (Url4516.tla): TLC checks ParseUrl(Format(x)) = Expected(x) and emits URLs replayed into get_url_params; TraceUrl.tla for random components",
      text="Component pools (delimiters, percent, non-ASCII, defaults, extensions recognised/unknown/critical) are crossed by TLC; each formatted URL is parsed by the url crate and get_url_params and compared with the documented result incl. error rows; random Unicode components are validated in the other direction.",
      note="Trusts TLC, the url crate, the RFC 4516 transcription (checked against an independent reader in the spec). Attribute names decoded or as written are both accepted; case variants of scope words may be rejected or accepted.", ref="6/C20"),
}

NOT_YET = {}

def main():
    props = [json.loads(l) for l in open(os.path.join(V, "properties.jsonl"))]
    checks = []
    for p in props:
        pid = p["id"]
        if pid not in CHECKS:
            continue
        c = CHECKS[pid]
        checks.append(dict(property_id=pid, quick_cmd="bin/check %s --tier quick" % pid,
                           thorough_cmd="bin/check %s --tier thorough" % pid,
                           evidence_file="evidence/%s.json" % pid,
                           replay_cmd_template="bin/check %s --replay {path}" % pid,
                           engine="tlc+harness",
                           level_claimed=dict(category=c["cat"], text=c["text"], design_ref="DESIGN.md section " + c["ref"]),
                           level_note=c["note"], technique=c["tech"]))
    na = [dict(property_id=p["id"], reason=NOT_YET.get(p["id"], "check not built yet in this session (planned, see DESIGN.md section 11); not claimed until it runs"))
          for p in props if p["id"] not in CHECKS]
    m = dict(version=1,
             setup_cmd="cd harness && cargo build --release --offline",
             hooks=dict(guard="--cfg ldap3_verif",
                        enable="RUSTFLAGS in harness/.cargo/config.toml: --cfg ldap3_verif --cfg tokio_unstable (the harness has a path dependency on /repo)",
                        baseline_off_cmd="cd /repo && cargo test --workspace --no-fail-fast --offline",
                        source_commits=["badc661", "849fab6", "bbaf853"], add_only=True),
             engines=[dict(name="tlc", path="spec/", serves_properties=sorted(CHECKS), kind_free_text="TLA+ specifications checked by TLC (model checking, vector/scenario generation, trace validation)"),
                      dict(name="harness", path="harness/", serves_properties=sorted(CHECKS), kind_free_text="Rust conformance harness: replays TLC output into ldap3/lber and records implementation traces for TLC")],
             checks=checks,
             notes="bin/check <ID> [--tier quick|thorough] [--replay FILE]; exit 0/1/2 = held / violation / tool error. Known findings: findings/known_findings.jsonl.",
             not_applicable=na)
    with open(os.path.join(V, "MANIFEST.json"), "w") as f:
        json.dump(m, f, indent=1)
        f.write("\n")

if __name__ == "__main__":
    main()
