#!/usr/bin/env python3
"""Regenerates /verif/MANIFEST.json from the table below (single source of truth for the interface file)."""
import json, os
V = os.path.dirname(os.path.dirname(os.path.abspath(__file__)))

CHECKS = {
 "C07": dict(cat="model_checking", tech="TLA+ reference model of X.690 (Ber.tla): TLC checks round-trip/minimality laws, prints every state as a vector replayed into lber; lber-produced pairs validated by a trace spec",
      text="TLC exhausts a bounded space of tag trees, boundary lengths and 8-octet integer patterns: the X.690 laws are invariants of the spec, every explored state is replayed into lber (encode, parse with trailing bytes, every alternative definite length form), and random lber input/output pairs are recomputed by TLC. Exhaustive within the pools, sampled beyond.",
      note="Trusts TLC, the Json module, my transcription of X.690 (checked by its own laws) and the JSON<->StructureTag projection of the harness.", ref="6/C07"),
}

NOT_YET = {}

def main():
    props = [json.loads(l) for l in open(os.path.join(V, "properties.jsonl"))]
    checks = []
    for p in props:
        pid = p["id"]
        if pid not in CHECKS:
            continue
        c = CHECKS[pid]
        checks.append(dict(property_id=pid, quick_cmd="bin/check %s --tier quick" % pid,
                           thorough_cmd="bin/check %s --tier thorough" % pid,
                           evidence_file="evidence/%s.json" % pid,
                           replay_cmd_template="bin/check %s --replay {path}" % pid,
                           engine="tlc+harness",
                           level_claimed=dict(category=c["cat"], text=c["text"], design_ref="DESIGN.md section " + c["ref"]),
                           level_note=c["note"], technique=c["tech"]))
    na = [dict(property_id=p["id"], reason=NOT_YET.get(p["id"], "check not built yet in this session (planned, see DESIGN.md section 11); not claimed until it runs"))
          for p in props if p["id"] not in CHECKS]
    m = dict(version=1,
             setup_cmd="cd harness && cargo build --release --offline",
             hooks=dict(guard="--cfg ldap3_verif",
                        enable="RUSTFLAGS in harness/.cargo/config.toml: --cfg ldap3_verif --cfg tokio_unstable (the harness has a path dependency on /repo)",
                        baseline_off_cmd="cd /repo && cargo test --workspace --no-fail-fast --offline",
                        source_commits=["badc661", "849fab6"], add_only=True),
             engines=[dict(name="tlc", path="spec/", serves_properties=sorted(CHECKS), kind_free_text="TLA+ specifications checked by TLC (model checking, vector/scenario generation, trace validation)"),
                      dict(name="harness", path="harness/", serves_properties=sorted(CHECKS), kind_free_text="Rust conformance harness: replays TLC output into ldap3/lber and records implementation traces for TLC")],
             checks=checks,
             notes="bin/check <ID> [--tier quick|thorough] [--replay FILE]; exit 0/1/2 = held / violation / tool error. Known findings: findings/known_findings.jsonl.",
             not_applicable=na)
    with open(os.path.join(V, "MANIFEST.json"), "w") as f:
        json.dump(m, f, indent=1)
        f.write("\n")

if __name__ == "__main__":
    main()
