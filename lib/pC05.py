"""C05 - in-flight operations never share a message ID; IDs stay within 1..2^31-1; wrap-around skips IDs in use."""
import os
import common as C
import connlane as L

MC = {"quick": [("mc-ids", "MCLdapConn", "MCConn_c05_quick.cfg", 600, 8)],
      "thorough": [("mc-ids", "MCLdapConn", "MCConn_c05_thorough.cfg", 3000, 12)]}
PROFILES = {"quick": [("plain", 150), ("mixed", 100)],
            "thorough": [("plain", 2000), ("mixed", 2000), ("timeouts", 1000)]}
STRESS = {"quick": (4, 16, 40, 60), "thorough": (40, 16, 64, 400)}     # runs, threads, tasks, ops per task
SCRIPTS = {"quick": ("GenConn_len4.cfg", 16), "thorough": ("GenConn_len5.cfg", 20)}
RULE = ("model: UniqueIds / WireUnique / IdRange / Protected over every interleaving of two operations with the counter at 0 and next "
        "to the wrap point; the allocator law (probing = 'first free ID cyclically after last') for every (last, used) of a 6-ID space, "
        "each replayed into the real allocator next to 2^31-1; implementation: allocator events of all scenarios must obey the law with "
        "MaxId = 2147483647, and a multi-thread stress run (16 OS threads, counter placed within 200 of 2^31-1, phantom IDs in use at "
        "both ends) records allocator events in lock order; the server checks that no request ID repeats among unanswered requests")


def extra(chk):
    d = chk.dir
    # allocator law, exhaustive for MaxId = 6, every state replayed into the real allocator at the real wrap point
    out = os.path.join(d, "mcmsgid.out")
    res = C.tlc("MCMsgId", "MCMsgId.cfg", out, workers=4, timeout=300, heap="2g")
    chk.model("MCMsgId", res)
    rp = os.path.join(d, "alloc-vectors.json")
    C.harness("conn-run", ["alloc", out, rp])
    rep = C.load(rp)
    chk.report(rep, "S->I: MCMsgId states replayed into next_msgid() at the real wrap point")
    os.remove(out)
    # multi-thread stress lane
    runs, threads, tasks, ops = STRESS[chk.tier]
    tr = os.path.join(d, "stress.ndjson")
    sp = os.path.join(d, "stress.json")
    C.harness("conn-run", ["stress", tr, C.seed() * 1000 + 1, runs, threads, tasks, ops, sp], timeout=1800)
    srep = C.load(sp)
    chk.report(srep, "multi-thread stress: wire IDs at the server")
    tout = os.path.join(d, "stress.tlc")
    res = C.tlc("TraceMsgId", "TraceMsgId.cfg", tout, workers=1, env={"TRACE": tr}, timeout=1800, heap="4g")
    n = sum(1 for _ in open(tr))
    if not res["ok"] or res["depth"] != n + 1:
        chk.tool_error("TraceMsgId did not consume the stress trace: %s\n%s" % (res["error"], res.get("tail", "")[-1200:]))
        return
    diags = L.read_diags(tout)
    chk.traces += runs
    chk.extra.setdefault("trace_validation", []).append(dict(module="TraceMsgId", events=n, rejected=len(diags), maxid=2147483647))
    by = {}
    for idx, tag in diags:
        by.setdefault(tag, []).append(idx)
    import json
    lines = open(tr).read().split("\n")
    for tag, idxs in by.items():
        chk.problem("stress:" + tag, dict(count=len(idxs), first_event=json.loads(lines[idxs[0] - 1]),
                                          before=[json.loads(x) for x in lines[max(0, idxs[0] - 6):idxs[0] - 1]]),
                    "I->S: TraceMsgId on the multi-thread stress trace")
    # self-test: an allocation that skips a free ID must be rejected
    evs = [json.loads(x) for x in lines if x]
    cut = [i for i, e in enumerate(evs) if e["ev"] == "Reset"]
    evs = evs[:cut[1]] if len(cut) > 1 else evs
    for e in evs:
        if e["ev"] == "IdAlloc":
            e["id"] += 1
            break
    p = os.path.join(d, "selftest-alloc.ndjson")
    with open(p, "w") as f:
        for e in evs[:400]:
            f.write(json.dumps(e) + "\n")
    so = os.path.join(d, "selftest-alloc.tlc")
    C.tlc("TraceMsgId", "TraceMsgId.cfg", so, workers=1, env={"TRACE": p}, timeout=120, heap="2g")
    ok = any(t == "alloc:law" for _, t in L.read_diags(so))
    chk.extra.setdefault("binding_selftest", []).append(dict(name="alloc-skips-free-id", rejected=ok))
    if not ok and not diags:
        chk.tool_error("selftest: an allocation that skips a free ID was accepted by TraceMsgId")
    os.remove(tr)


def run(tier):
    return L.run_lane("C05", tier, MC[tier], PROFILES[tier], RULE, scripts=SCRIPTS[tier], selftests=[("alloc", L.corrupt_alloc, "alloc")], extra=extra,
                      assumptions=["the schedule quantifier over real threads is sampled by the stress lane, not exhausted"])


def replay(path):
    return L.replay("C05", path, run)
