"""C11 - hostile or corrupt server bytes cannot crash or wedge the connection.
 (a) MCHostile: from each valid message of a pool every single-field mutation expressible on the encoding (length fields,
     identifier octets, elements cut / removed / emptied / duplicated / replaced, truncation at every octet, message IDs
     outside 0..2^31-1, unexpected and unknown protocolOps, malformed controls, envelope shapes) plus all byte strings of
     length <= 2 (<= 3 in thorough); TLC checks the totality laws of spec/Framing.tla on every vector and prints the verdict;
 (b) every vector through ldap3::verif::decode: Err or Ok(Some) as the verdict says, never a panic, never Ok(None) once the
     outer length is satisfied;
 (c) a sampled subset through a live LdapConnAsync with two pending operations and an active search: a frame that is not a
     well-formed envelope ends the connection with an error every pending operation observes and nothing sent afterwards is
     delivered; a well-formed envelope with hostile contents may be delivered, ignored or end the connection, but the driver
     never panics and nobody hangs once good responses have arrived;
 (d) seeded random / multiply mutated strings through decode, recomputed by TraceHostile (I -> S);
 (e) stack lane: Nest(d), d in {10, 100, 1000, 10^4, 10^5, 2^19}, each in a child process on a 2 MiB stack."""
import json, os
import common as C
import framelane as F

CFG = {"quick": ("MCHostile_quick.cfg", 300, 500, 10000), "thorough": ("MCHostile_thorough.cfg", 2400, 3000, 1000000)}


def run(tier):
    chk = C.Check("C11", "fault_enumeration", tier)
    C.build_harness()
    cfg, tmo, ndrv, nrand = CFG[tier]
    d = chk.dir
    out = os.path.join(d, "mchostile.out")
    res = F.tlc_vectors(chk, "MCHostile", cfg, out, tmo)
    rep = F.run_report(chk, ["replay-hostile", out], os.path.join(d, "replay.json"),
                       "S->I replay of every MCHostile vector into ldap3::verif::decode", timeout=tmo)
    c = rep["counters"]
    if res["ok"] and c.get("vectors", 0) != res["distinct"]:
        chk.tool_error("vector count %s differs from TLC's distinct states %s" % (c.get("vectors"), res["distinct"]))
    for need in ("verdict:Msg", "verdict:Bad", "verdict:Either", "verdict:NeedMore", "verdict:Any", "kind:len-1", "kind:remove-element",
                 "kind:tag-class", "kind:trunc", "kind:msgid-2^32+k", "kind:criticality-empty", "kind:control-not-sequence",
                 "kind:op-extended-response", "kind:envelope-empty"):
        if not c.get(need):
            chk.tool_error("vacuous replay: no vector of class %s" % need)
    chk.rule.append("S->I: one vector per state of MCHostile = every single-field mutation of each pool message + all byte strings of "
                    "length <= 2%s; verdict from spec/Framing.tla (outer header and outer length only; inner structure by Ber!Dec); "
                    "non-trivial = a mutant, or a string long enough to carry a header; distinct by bytes"
                    % (" + every 3-octet string" if tier == "thorough" else ""))
    drv = F.run_report(chk, ["driver", out, ndrv], os.path.join(d, "driver.json"),
                       "sampled hostile frames through a live driver (2 pending operations + 1 active search)", timeout=tmo)
    os.remove(out)
    dc = drv["counters"]
    if dc.get("setup_failures"):
        chk.tool_error("driver lane: %s scenarios could not be set up" % dc["setup_failures"])
    for need in ("driver-verdict:Bad", "driver-verdict:Msg", "driver-verdict:Either"):
        if not dc.get(need):
            chk.tool_error("vacuous driver lane: no %s frame" % need)
    chk.rule.append("driver lane: the frames DESIGN.md names + one vector of every (mutation kind, verdict) + a seeded sample up to %d, "
                    "each against a fresh connection, chunked whole / octet by octet / split after the first octet / in the same read "
                    "as a good response" % ndrv)
    # (d)
    tr = os.path.join(d, "random.ndjson")
    F.run_report(chk, ["trace-hostile", tr, nrand], os.path.join(d, "random.json"), "I->S generation (random and multiply mutated strings)")
    tout = os.path.join(d, "tracehostile.out")
    C.validate_records(chk, "TraceHostile", "TraceHostile.cfg", tr, tout, F.hostile_classifier(tout, tr),
                       "I->S: TraceHostile rejected what ldap3::verif::decode did with a byte string", timeout=tmo)

    def wait_on_complete(r):
        # a complete frame that is not an envelope, reported as "decoder wants more"
        if len(r["b"]) >= 2 and r["b"][0] == 0x30 and r["b"][1] < 0x80 and len(r["b"]) >= 2 + r["b"][1]:
            return {"b": r["b"], "r": "none", "left": len(r["b"])}
        return None
    C.selftest_record(chk, "TraceHostile", "TraceHostile.cfg", tr, wait_on_complete, "waits-on-a-complete-bad-frame")
    os.remove(tr)
    # (e)
    st = F.run_report(chk, ["stack"], os.path.join(d, "stack.json"), "stack lane (child processes)")
    chk.rule.append("stack lane: Nest(d) bare and inside a SearchResultEntry of a well-formed envelope, d in {10, 100, 1000, 10^4, 10^5, "
                    "2^19}, decoded (and dropped) on a 2 MiB thread of a child process; the exit status is the observation")
    chk.assumptions += ["TLC and the CommunityModules Json reader are correct",
                        "spec/Framing.tla's WellFormedEnvelope transcribes RFC 4511 4.1.1 (messageID 0..2^31-1, application-class protocolOp, "
                        "controls [0]); deviations a liberal decoder may tolerate and BER forms outside LDAP's subset get the verdict Either",
                        "memory exhaustion through huge announced lengths is outside the property",
                        "a panic in a caller's task while converting a well-formed envelope's protocolOp is reported as a NOTE, not counted: "
                        "the property is about the connection driver and the envelope",
                        "2 MiB is the stack the driver runs on (Tokio worker default)"]
    return chk.finish()


def replay(path):
    r = C.load(path)
    print("replay of %s: class %s; re-running the quick check" % (path, r.get("key")))
    return run("quick")
