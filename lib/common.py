"""Shared machinery of /verif/bin/check: build, TLC runs, harness runs, known findings, evidence, exit codes.

Exit codes: 0 = property held on everything explored (known findings are printed, not counted);
            1 = violation of the property by the code under test (VIOLATION line + replay file);
            2 = tool error / timeout / model-level failure (never a verdict about the code).
"""
import json, os, re, shutil, subprocess, sys, time

VERIF = os.path.dirname(os.path.dirname(os.path.abspath(__file__)))
SPEC = os.path.join(VERIF, "spec")
HARNESS = os.path.join(VERIF, "harness")
BIN = os.path.join(HARNESS, "target", "release")
# VERIF_REPO=<dir>: check a scratch copy/worktree of inejge/ldap3 instead of /repo (seeded-change trials). The harness
# is then built into its own target directory with cargo's `paths` override, scratch and evidence go under run/alt-<tag>/,
# and neither /repo nor evidence/ is touched.
ALT_REPO = os.environ.get("VERIF_REPO")
if ALT_REPO:
    ALT_REPO = os.path.abspath(ALT_REPO)
    _tag = "alt-" + os.path.basename(ALT_REPO.rstrip("/"))
    RUN = os.path.join(VERIF, "run", _tag)
    EVID = os.path.join(RUN, "evidence")
    BIN = os.path.join(RUN, "target", "release")
else:
    RUN = os.path.join(VERIF, "run")
    EVID = os.path.join(VERIF, "evidence")
FINDINGS = os.path.join(VERIF, "findings", "known_findings.jsonl")
NCPU = os.cpu_count() or 4


class ToolError(Exception):
    pass


class Crashed(Exception):
    """The harness process was killed by a signal (abort on allocation failure, stack overflow, ...) while it was executing the
    code under test: that is an observation about the code, not a tool error. `crumb` is the input it was working on."""
    def __init__(self, binary, args, signal, crumb, tail):
        Exception.__init__(self, "%s died with signal %s" % (binary, signal))
        self.binary, self.args, self.signal, self.crumb, self.tail = binary, args, signal, crumb, tail


def seed():
    try:
        return int(os.environ.get("VERIF_SEED", "1"))
    except ValueError:
        return 1


def log(*a):
    print(*a, flush=True)


def run_dir(pid, fresh=True):
    d = os.path.join(RUN, pid)
    if fresh and os.path.isdir(d):
        shutil.rmtree(d, ignore_errors=True)
    os.makedirs(d, exist_ok=True)
    return d


def build_harness():
    """Rebuild the harness (and with it /repo's working tree, hooks on)."""
    t0 = time.time()
    lock = os.path.join(HARNESS, "Cargo.lock")
    if not os.path.exists(lock):
        raise ToolError("harness/Cargo.lock missing")
    env = dict(os.environ, CARGO_NET_OFFLINE="true")
    cmd = ["cargo", "build", "--release", "--offline"]
    if ALT_REPO:
        cmd += ["--config", 'paths=["%s","%s/lber"]' % (ALT_REPO, ALT_REPO), "--target-dir", os.path.join(RUN, "target")]
    p = subprocess.run(cmd, cwd=HARNESS, env=env,
                       stdout=subprocess.PIPE, stderr=subprocess.STDOUT, text=True)
    if p.returncode != 0:
        sys.stdout.write(p.stdout[-6000:])
        raise ToolError("harness / hooked ldap3 build failed")
    return time.time() - t0


_STATS = re.compile(r"(\d+) states generated, (\d+) distinct states found, (\d+) states left on queue")


def tlc(module, cfg, out, workers=8, env=None, timeout=600, heap=None, extra=None, simulate=None, dfs=False):
    """Run TLC on spec/<module>.tla with spec/<cfg>; stdout+stderr go to file `out`.
    Returns dict(ok, generated, distinct, depth, violated, error, wall)."""
    meta = out + ".meta"
    shutil.rmtree(meta, ignore_errors=True)
    e = dict(os.environ)
    jopts = "-Xss1g"
    if dfs:
        jopts += " -Dtlc2.tool.queue.IStateQueue=StateDeque"
    # a bounded heap matters: with the JVM default (1/4 of RAM) TLC spends most of its time in page faults
    jopts += " -Xmx%s" % (heap or "4g")
    tmpd = os.path.join(os.path.dirname(out), "jtmp")
    os.makedirs(tmpd, exist_ok=True)
    jopts += " -Djava.io.tmpdir=%s" % tmpd          # TLC unpacks its standard modules there; keep /tmp clean
    e["JAVA_TOOL_OPTIONS"] = jopts
    if env:
        e.update(env)
    cmd = ["timeout", str(timeout), "tlc", "-workers", str(workers), "-metadir", meta, "-cleanup",
           "-noGenerateSpecTE", "-config", os.path.join(SPEC, cfg)]
    if simulate:
        cmd += ["-simulate", simulate]
    if extra:
        cmd += extra
    cmd.append(os.path.join(SPEC, module + ".tla"))
    t0 = time.time()
    with open(out, "w") as f:
        p = subprocess.run(cmd, cwd=SPEC, env=e, stdout=f, stderr=subprocess.STDOUT)
    wall = time.time() - t0
    shutil.rmtree(meta, ignore_errors=True)
    unwrap_tuples(out)
    res = dict(ok=False, generated=0, distinct=0, depth=0, violated=None, error=None, wall=wall, rc=p.returncode, out=out)
    if p.returncode == 124:
        res["error"] = "timeout after %ss" % timeout
        return res
    tail = []
    with open(out, errors="replace") as f:
        for line in f:
            if line.startswith('<<"'):
                continue
            m = _STATS.search(line)
            if m:
                res["generated"], res["distinct"] = int(m.group(1)), int(m.group(2))
            m = re.match(r"The depth of the complete state graph search is (\d+)", line)
            if m:
                res["depth"] = int(m.group(1))
            m = re.match(r"Error: Invariant (\S+) is violated", line)
            if m:
                res["violated"] = m.group(1)
            if line.startswith("Error:") and res["error"] is None:
                res["error"] = line.strip()
            if "is violated" in line and res["violated"] is None and "Error" in line:
                res["violated"] = line.strip()
            tail.append(line)
            if len(tail) > 60:
                tail.pop(0)
    res["tail"] = "".join(tail)
    res["ok"] = (p.returncode == 0 and res["error"] is None)
    return res


def unwrap_tuples(path):
    """TLC pretty-prints a value wider than 80 columns over several lines (`<< "TAG",` / `   2,` / ... / `   "x" >>`).
    Every reader of tagged lines expects one line per printed tuple, so such blocks are folded back into
    `<<"TAG", 2, ..., "x">>`. Without this a long diagnosis would silently disappear."""
    try:
        with open(path, errors="replace") as f:
            lines = f.read().split("\n")
    except OSError:
        return
    if not any(l.startswith("<< ") for l in lines):
        return
    out, buf = [], None
    for l in lines:
        if buf is None:
            if l.startswith("<< ") and not l.rstrip().endswith(">>"):
                buf = [l.strip()]
            elif l.startswith("<< "):
                out.append(_compact(l))
            else:
                out.append(l)
        else:
            buf.append(l.strip())
            joined = " ".join(buf)
            if joined.count("<<") == joined.count(">>"):
                out.append(_compact(joined))
                buf = None
    if buf is not None:
        out.extend(buf)
    with open(path, "w") as f:
        f.write("\n".join(out))


def _compact(s):
    s = re.sub(r"\s+", " ", s.strip())
    return s.replace("<< ", "<<").replace(" >>", ">>")


def tagged_lines(path, tag):
    """Yield the payload of `<<"TAG", ...>>` lines TLC printed (raw text after the tag)."""
    pre = '<<"%s", ' % tag
    with open(path, errors="replace") as f:
        for line in f:
            if line.startswith(pre):
                yield line[len(pre):].rstrip("\n")[:-2]


def harness(binary, args, timeout=900, stdin=None, env=None):
    e = dict(os.environ)
    e["VERIF_SEED"] = str(seed())
    if env:
        e.update(env)
    os.makedirs(RUN, exist_ok=True)
    crumb = os.path.join(RUN, "crumb-%s-%d.json" % (binary, os.getpid()))
    if not os.environ.get("VERIF_NOCRUMB"):
        e["VERIF_CRUMB"] = crumb
    p = subprocess.run(["timeout", str(timeout), os.path.join(BIN, binary)] + [str(a) for a in args],
                       stdin=stdin, stdout=subprocess.PIPE, stderr=subprocess.STDOUT, text=True, env=e)
    last = None
    if os.path.exists(crumb):
        try:
            last = json.load(open(crumb))
        except Exception:
            last = None
        os.remove(crumb)
    if os.path.exists(crumb + ".txt"):
        try:
            vec = open(crumb + ".txt", errors="replace").read().strip()
            last = dict(last or {}, vector=vec)
        except Exception:
            pass
        os.remove(crumb + ".txt")
    sig = -p.returncode if p.returncode < 0 else (p.returncode - 128 if p.returncode in (132, 134, 135, 136, 139) else None)
    if sig in (4, 6, 7, 8, 11):
        sys.stdout.write(p.stdout[-3000:])
        raise Crashed(binary, [str(a) for a in args], sig, last, p.stdout[-3000:])
    if p.returncode != 0:
        sys.stdout.write(p.stdout[-4000:])
        raise ToolError("%s %s exited %d" % (binary, " ".join(map(str, args[:3])), p.returncode))
    return p.stdout


def load(path):
    with open(path) as f:
        return json.load(f)


def known_findings(pid):
    out = []
    if os.path.exists(FINDINGS):
        with open(FINDINGS) as f:
            for line in f:
                line = line.strip()
                if not line or line.startswith("#"):
                    continue
                r = json.loads(line)
                if r.get("property") == pid:
                    out.append(r)
    return out


class Check:
    """Collects what one run of one property's check did and turns it into evidence + exit code."""

    def __init__(self, pid, level, tier):
        self.pid, self.level, self.tier = pid, level, tier
        self.t0 = time.time()
        self.dir = run_dir(pid)
        self.states = 0
        self.transitions = 0
        self.traces = 0
        self.evaluations = 0
        self.distinct = 0
        self.samples = []
        self.rule = []
        self.exhaustive = None
        self.extra = {}
        self.assumptions = []
        self.problems = []      # (key, case, source)
        self.notes = []
        self.tool_errors = []

    # ---- model side
    def model(self, name, res, expect_violation=None):
        """Record a TLC model-checking run. A failure of the model itself is a tool error."""
        self.states += res["distinct"]
        self.transitions += res["generated"]
        self.extra.setdefault("tlc_runs", []).append(
            dict(name=name, generated=res["generated"], distinct=res["distinct"], depth=res["depth"],
                 wall_s=round(res["wall"], 1), violated=res["violated"]))
        if expect_violation:
            if res["violated"] != expect_violation:
                self.tool_errors.append("%s: expected TLC to find a violation of %s, got %s / %s"
                                        % (name, expect_violation, res["violated"], res["error"]))
        elif not res["ok"]:
            self.tool_errors.append("%s: TLC failed on the model itself: %s\n%s"
                                    % (name, res["error"] or res["violated"], res.get("tail", "")[-1500:]))

    # ---- implementation side
    def report(self, rep, source):
        """Merge a harness report (see harness/src/report.rs)."""
        self.evaluations += rep["evaluations"]
        self.distinct += rep["distinct_nontrivial"]
        for s in rep.get("samples", [])[:3]:
            if len(self.samples) < 8:
                self.samples.append(s)
        self.extra.setdefault("harness_runs", []).append(
            dict(lane=rep["lane"], evaluations=rep["evaluations"], distinct_nontrivial=rep["distinct_nontrivial"],
                 counters=rep.get("counters", {}), mismatches=rep["mismatch_total"], by_key=rep.get("mismatch_by_key", {})))
        kept = {}
        for m in rep.get("mismatches", []):
            kept.setdefault(m["key"], []).append(m["case"])
        for key, n in rep.get("mismatch_by_key", {}).items():
            self.problems.append((key, dict(count=n, cases=kept.get(key, [])[:3]), source))
        for n in rep.get("notes", []):
            self.notes.append(n)

    def problem(self, key, case, source):
        self.problems.append((key, case, source))

    def tool_error(self, msg):
        self.tool_errors.append(msg)

    # ---- verdict
    def finish(self):
        wall = time.time() - self.t0
        kf = known_findings(self.pid)
        open_keys = {r["key"]: r for r in kf if r.get("status") == "open"}
        violations = []
        known_hit = {}
        for key, case, source in self.problems:
            if key in open_keys:
                known_hit.setdefault(key, []).append((case, source))
            else:
                violations.append((key, case, source))
        cov = dict(states=self.states, transitions=self.transitions,
                   traces_validated_against_impl=self.traces,
                   evaluations=self.evaluations, distinct_nontrivial=self.distinct,
                   rule="; ".join(self.rule), samples=self.samples[:8])
        if self.exhaustive is not None:
            cov["exhaustive"] = self.exhaustive
        cov.update(self.extra)
        cov["known_findings_reproduced"] = sorted(known_hit)
        ev = dict(property_id=self.pid, tier=self.tier, seed=seed(), level=self.level, coverage=cov,
                  assumptions=self.assumptions, wall_s=round(wall, 1), violations=len(violations))
        if self.notes:
            ev["coverage"]["notes"] = self.notes[:20]
        if self.tool_errors:
            ev["coverage"]["tool_errors"] = self.tool_errors
        os.makedirs(EVID, exist_ok=True)
        with open(os.path.join(EVID, self.pid + ".json"), "w") as f:
            json.dump(ev, f, indent=1, sort_keys=True)
            f.write("\n")
        for n in self.notes[:20]:
            log("NOTE property=%s %s" % (self.pid, n))
        for key, hits in sorted(known_hit.items()):
            log("KNOWN-FINDING: property=%s %s [%s]" % (self.pid, open_keys[key].get("what", ""), key))
        # a violation observed against the real code stands whatever else went wrong in the same run (part of the machinery
        # may fail *because* of the defect, e.g. a trace generator meeting a parser that now refuses its own encoder's output)
        for t in self.tool_errors:
            log("TOOL-ERROR property=%s %s" % (self.pid, t))
        if self.tool_errors and not violations:
            log("check %s: tool error (exit 2), wall %.1fs" % (self.pid, wall))
            return 2
        if violations:
            vdir = os.path.join(self.dir, "violations")
            os.makedirs(vdir, exist_ok=True)
            for i, (key, case, source) in enumerate(violations):
                path = os.path.join(vdir, "v%02d.json" % i)
                with open(path, "w") as f:
                    json.dump(dict(property=self.pid, key=key, source=source, case=case, seed=seed(), tier=self.tier), f, indent=1)
                log("VIOLATION property=%s replay=%s" % (self.pid, path))
                log("  key=%s source=%s" % (key, source))
            log("check %s: %d violation class(es), wall %.1fs" % (self.pid, len(violations), wall))
            return 1
        log("check %s: ok (%s tier) states=%d transitions=%d evaluations=%d traces=%d wall=%.1fs"
            % (self.pid, self.tier, self.states, self.transitions, self.evaluations, self.traces, wall))
        return 0


def validate_records(chk, module, cfg, trace_path, out, classify, source, timeout=600, env=None, chunk_bytes=100 << 20):
    """I->S for pure functions: TLC recomputes every record of `trace_path`; BADREC lines are mapped back to
    records and classified by `classify(record) -> key`. Returns number of records. A trace larger than `chunk_bytes` is
    validated in several TLC runs (the Json reader holds the whole file in memory)."""
    nrec = sum(1 for _ in open(trace_path))
    parts = []          # (path, first record number - 1, records)
    if os.path.getsize(trace_path) <= chunk_bytes:
        parts.append((trace_path, 0, nrec))
    else:
        with open(trace_path) as f:
            k, size, n0, n, g = 0, 0, 0, 0, None
            for line in f:
                if g is None or size + len(line) > chunk_bytes:
                    if g is not None:
                        g.close()
                        parts.append((pp, n0, n - n0))
                    k += 1
                    pp = "%s.part%d" % (trace_path, k)
                    g, size, n0 = open(pp, "w"), 0, n
                g.write(line)
                size += len(line)
                n += 1
            g.close()
            parts.append((pp, n0, n - n0))
    bad, wall, ok = [], 0.0, True
    for pp, off, cnt in parts:
        e = {"TRACE": pp}
        if env:
            e.update(env)
        res = tlc(module, cfg, out, workers=1, env=e, timeout=timeout)
        wall += res["wall"]
        if not res["ok"] or res["depth"] != cnt + 1:
            chk.tool_error("%s: trace validation did not consume the trace (depth %s of %s records, part at %d): %s\n%s"
                           % (module, res["depth"], cnt, off, res["error"], res.get("tail", "")[-1200:]))
            ok = False
        else:
            bad += [off + int(x.strip()) for x in tagged_lines(out, "BADREC")]
        if pp != trace_path:
            os.remove(pp)
        if not ok:
            return nrec
    chk.traces += nrec
    chk.extra.setdefault("trace_validation", []).append(
        dict(module=module, records=nrec, rejected=len(bad), wall_s=round(wall, 1), tlc_runs=len(parts)))
    if bad:
        want = set(bad)
        by = {}
        with open(trace_path) as f:
            for i, line in enumerate(f, 1):
                if i in want:
                    r = json.loads(line)
                    k = classify(r)
                    by.setdefault(k, []).append(r)
        for k, rs in by.items():
            small = [shrink(r) for r in rs[:3]]
            chk.problem(k, dict(count=len(rs), cases=small), source)
    return nrec


def shrink(r, limit=400):
    s = json.dumps(r)
    if len(s) <= limit:
        return r
    return {"truncated": s[:limit]}


def selftest_record(chk, module, cfg, trace_path, mutate, name):
    """Binding self-test: a deliberately corrupted record must be rejected by the trace spec."""
    with open(trace_path) as f:
        first = None
        for line in f:
            r = json.loads(line)
            m = mutate(r)
            if m is not None:
                first = m
                break
    if first is None:
        chk.tool_error("selftest %s: no record to corrupt" % name)
        return
    p = os.path.join(chk.dir, "selftest-%s.ndjson" % name)
    with open(p, "w") as f:
        f.write(json.dumps(first) + "\n")
    out = os.path.join(chk.dir, "selftest-%s.out" % name)
    res = tlc(module, cfg, out, workers=1, env={"TRACE": p}, timeout=120)
    bad = list(tagged_lines(out, "BADREC"))
    ok = res["ok"] and len(bad) == 1
    chk.extra.setdefault("binding_selftest", []).append(dict(name=name, corrupted_record_rejected=ok))
    if not ok:
        chk.tool_error("selftest %s: corrupted record was NOT rejected by %s" % (name, module))
