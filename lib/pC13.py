"""C13 - completed operations leave nothing behind."""
import connlane as L

MC = {"quick": [("mc-noleak", "MCLdapConn", "MCConn_c13_quick.cfg", 900, 8)],
      "thorough": [("mc-noleak", "MCLdapConn", "MCConn_c13_thorough.cfg", 3000, 12)]}
PROFILES = {"quick": [("mixed", 150), ("timeouts", 150), ("plain", 100)],
            "thorough": [("mixed", 2500), ("timeouts", 2500), ("plain", 1000), ("long", 300)]}
SCRIPTS = {"quick": ("GenConn_len4.cfg", 8), "thorough": ("GenConn_len5.cfg", 10)}
RULE = ("model: NoLeak (quiescent => no ID reserved, both routing tables empty) over every interleaving of two operations incl. "
        "timeouts racing the request dequeue, abandons of finished/timed-out/in-flight operations, early finish; implementation: "
        "seeded histories; the driver's post-state snapshot {used, resultmap keys, searchmap keys} is compared with the model "
        "after every driver turn and through the accessor at the quiescent end of every scenario")


def run(tier):
    return L.run_lane("C13", tier, MC[tier], PROFILES[tier], RULE, scripts=SCRIPTS[tier], selftests=[("snapshot", L.corrupt_snapshot, "inv:NoLeak")])


def replay(path):
    return L.replay("C13", path, run)
