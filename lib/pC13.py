"""C13 - completed operations leave nothing behind."""
import connlane as L

# (the quick instance is the one with a peer that may stop reading: its behaviours include those of MCConn_c13_quick.cfg)
MC = {"quick": [("mc-noleak-stall", "MCLdapConn", "MCConn_c13_stall.cfg", 900, 8)],
      "thorough": [("mc-noleak", "MCLdapConn", "MCConn_c13_thorough.cfg", 3000, 12),
                   ("mc-noleak-stall", "MCLdapConn", "MCConn_c13_stall.cfg", 900, 12)]}
PROFILES = {"quick": [("mixed", 150), ("timeouts", 150), ("plain", 100), ("stall", 150), ("drops", 100), ("aderr", 120), ("split", 100)],
            "thorough": [("mixed", 2500), ("timeouts", 2500), ("plain", 1000), ("long", 300), ("stall", 2500), ("drops", 1500), ("aderr", 1500), ("split", 1500)]}
SCRIPTS = {"quick": ("GenConn_len4.cfg", 8), "thorough": ("GenConn_len5.cfg", 10)}
RULE = ("model: NoLeak (quiescent => no ID reserved, both routing tables empty) over every interleaving of two operations incl. "
        "timeouts racing the request dequeue, abandons of finished/timed-out/in-flight operations, early finish; implementation: "
        "seeded histories; the driver's post-state snapshot {used, resultmap keys, searchmap keys} is compared with the model "
        "after every driver turn and through the accessor at the quiescent end of every scenario")


def extra(chk):
    """Searches through the adapter chains, incl. paged searches whose pages are separate operations with their own IDs:
    after finish() at any point (early, at a page boundary, after a failure, read to the end) and settling, no ID may be
    reserved and the last driver snapshot must show empty routing tables. The behaviours are C16's (TLC: MCStream)."""
    import os
    import common as C
    import streamlane
    cfg = "MCStream_c16_quick.cfg" if chk.tier == "quick" else "MCStream_c16_thorough.cfg"
    out = os.path.join(chk.dir, "mcstream.out")
    res = C.tlc("MCStream", cfg, out, workers=4, timeout=1800, heap="2g")
    chk.model("MCStream/" + cfg, res)
    rp = os.path.join(chk.dir, "stream-replay.json")
    C.harness("stream-run", ["replay", out, rp], timeout=1800)
    os.remove(out)
    rep = C.load(rp)
    mine, rest = streamlane._own_view(rep, "c13:")
    mine["lane"] = "stream-replay (quiescence after finish)"
    chk.report(mine, "S->I: MCStream behaviours, connection state at the quiescent point after finish()")
    n = rep["counters"].get("quiescent-after-finish", 0)
    n2 = rep["counters"].get("quiescent-after-finish:paged-beyond-first-page", 0)
    chk.extra["stream_quiescent_points"] = dict(total=n, paged_beyond_first_page=n2)
    if n2 == 0:
        chk.tool_error("vacuity: no paged search was finished beyond its first page")
    chk.rule.append("stream lane: %d behaviours ended with finish() on a live connection (%d of them on the second or a later page "
                    "of a paged search); used IDs (accessor) and routing-table keys (last driver snapshot) must be empty there" % (n, n2))


def extra_all(chk):
    extra(chk)
    for flag in ("LeakSearchIdOnDone", "AbandonKeepsTargetId", "StaleInsertAfterScrub"):
        L.must_fail(chk, flag, "MCConn2_dev_%s.cfg" % flag, "NoLeak")
    chk.rule.append("non-vacuity: the three instances of the model with a fixed defect switched back on (the ID of a search kept "
                    "after SearchResultDone; the target's ID kept by Abandon; a routing entry inserted for a caller who already "
                    "gave up) must each violate NoLeak")


def run(tier):
    return L.run_lane("C13", tier, MC[tier], PROFILES[tier], RULE, scripts=SCRIPTS[tier], selftests=[("snapshot", L.corrupt_snapshot, ("inv:NoLeak", "quiet:more"))], extra=extra_all)


def replay(path):
    return L.replay("C13", path, run)
