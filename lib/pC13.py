"""C13 - completed operations leave nothing behind."""
import connlane as L

# (the quick instance is the one with a peer that may stop reading: its behaviours include those of MCConn_c13_quick.cfg)
MC = {"quick": [("mc-noleak-stall", "MCLdapConn", "MCConn_c13_stall.cfg", 900, 8)],
      "thorough": [("mc-noleak", "MCLdapConn", "MCConn_c13_thorough.cfg", 3000, 12),
                   ("mc-noleak-stall", "MCLdapConn", "MCConn_c13_stall.cfg", 900, 12)]}
PROFILES = {"quick": [("mixed", 150), ("timeouts", 150), ("plain", 100), ("stall", 150), ("drops", 100), ("aderr", 120), ("split", 100)],
            "thorough": [("mixed", 2500), ("timeouts", 2500), ("plain", 1000), ("long", 300), ("stall", 2500), ("drops", 1500), ("aderr", 1500), ("split", 1500)]}
SCRIPTS = {"quick": ("GenConn_len4.cfg", 8), "thorough": ("GenConn_len5.cfg", 10)}
RULE = ("model: NoLeak (quiescent => no ID reserved, both routing tables empty) over every interleaving of two operations incl. "
        "timeouts racing the request dequeue, abandons of finished/timed-out/in-flight operations, early finish; implementation: "
        "seeded histories; the driver's post-state snapshot {used, resultmap keys, searchmap keys} is compared with the model "
        "after every driver turn and through the accessor at the quiescent end of every scenario")


def extra(chk):
    """Searches through the adapter chains, incl. paged searches whose pages are separate operations with their own IDs:
    after finish() at any point (early, at a page boundary, after a failure, read to the end) and settling, no ID may be
    reserved and the last driver snapshot must show empty routing tables. The behaviours are C16's (TLC: MCStream)."""
    import os
    import common as C
    import streamlane
    cfg = "MCStream_c16_quick.cfg" if chk.tier == "quick" else "MCStream_c16_thorough.cfg"
    out = os.path.join(chk.dir, "mcstream.out")
    res = C.tlc("MCStream", cfg, out, workers=4, timeout=1800, heap="2g")
    chk.model("MCStream/" + cfg, res)
    rp = os.path.join(chk.dir, "stream-replay.json")
    C.harness("stream-run", ["replay", out, rp], timeout=1800)
    os.remove(out)
    rep = C.load(rp)
    mine, rest = streamlane._own_view(rep, "c13:")
    mine["lane"] = "stream-replay (quiescence after finish)"
    chk.report(mine, "S->I: MCStream behaviours, connection state at the quiescent point after finish()")
    n = rep["counters"].get("quiescent-after-finish", 0)
    n2 = rep["counters"].get("quiescent-after-finish:paged-beyond-first-page", 0)
    chk.extra["stream_quiescent_points"] = dict(total=n, paged_beyond_first_page=n2)
    if n2 == 0:
        chk.tool_error("vacuity: no paged search was finished beyond its first page")
    chk.rule.append("stream lane: %d behaviours ended with finish() on a live connection (%d of them on the second or a later page "
                    "of a paged search); used IDs (accessor) and routing-table keys (last driver snapshot) must be empty there" % (n, n2))


def extra_all(chk):
    extra(chk)
    extra_setup(chk)
    for flag in ("LeakSearchIdOnDone", "AbandonKeepsTargetId", "StaleInsertAfterScrub"):
        L.must_fail(chk, flag, "MCConn2_dev_%s.cfg" % flag, "NoLeak")
    chk.rule.append("non-vacuity: the three instances of the model with a fixed defect switched back on (the ID of a search kept "
                    "after SearchResultDone; the target's ID kept by Abandon; a routing entry inserted for a caller who already "
                    "gave up) must each violate NoLeak")


def extra_setup(chk):
    """Bookkeeping on the establishment path: the StartTLS exchange runs in the driver's single-operation mode, before any
    scenario of the connection lane begins. The establishment machine (spec/Setup.tla; C17 owns it) carries `held`, the IDs
    the client's bookkeeping holds, with the invariant EstablishedClean; every adversary script of MCSetupEst_dial is played
    against LdapConnAsync::with_settings, the handle's in-use set is read the moment the call returns, and TraceSetup
    validates the observed events. Only the `c13:` classes are judged here."""
    import os, json
    import common as C
    import setuplane as S
    out = os.path.join(chk.dir, "mcest.out")
    res = C.tlc("MCSetupEst", "MCSetupEst_dial.cfg", out, workers=4, timeout=300, heap="2g")
    chk.model("MCSetupEst/MCSetupEst_dial.cfg", res)
    rp = os.path.join(chk.dir, "est-replay.json")
    ob = os.path.join(chk.dir, "est-obs.ndjson")
    C.harness("setup-run", ["replay", "est", out, rp, ob], timeout=3000, env={"VERIF_SETUP_DIR": S.workdir(chk), "SETUP_WARMUP": "noverify"})
    rep = C.load(rp)
    before = len(chk.problems)
    kept = {}
    for m in rep.get("mismatches", []):
        kept.setdefault(m["key"], []).append(m["case"])
    for k, n in rep.get("mismatch_by_key", {}).items():
        if k.startswith("c13:"):
            chk.problem(k, dict(count=n, cases=kept.get(k, [])[:3]),
                        "S->I: adversary scripts of MCSetupEst played against LdapConnAsync::with_settings (bookkeeping at return)")
    others = sorted(k for k in rep.get("mismatch_by_key", {}) if not k.startswith("c13:"))
    if others:
        chk.notes.append("establishment: differences owned by C17/C04/C18 (not this property): %s" % ", ".join(others))
    tout = os.path.join(chk.dir, "tracesetup-est.out")
    C.validate_records(chk, "TraceSetup", "TraceSetup.cfg", ob, tout, lambda r: "trace:" + S.classify(r),
                       "I->S: TraceSetup: the observed events are not a behaviour of the establishment machine", timeout=600)
    # what TraceSetup rejects for another property's reason is that property's
    keep = []
    for i, (key, case, source) in enumerate(chk.problems):
        if i >= before and key.startswith("trace:") and not key.startswith("trace:c13:"):
            continue
        keep.append((key, case, source))
    chk.problems = keep
    cnt = rep.get("counters", {})
    chk.evaluations += rep["evaluations"]
    established = cnt.get("result_ok", 0)
    chk.extra["establishment_bookkeeping"] = dict(scripts=cnt.get("vectors", 0), established=established,
                                                  starttls=cnt.get("mode_starttls", 0))
    if established == 0 or cnt.get("mode_starttls", 0) == 0:
        chk.tool_error("the establishment replay established no StartTLS connection (vacuous)")
    S.selftest_fixed(chk, "exchange-id-still-held-when-established",
                     {"kind": "script",
                      "cfg": {"mode": "starttls", "verify": True, "connector": "custom", "timeout": "none", "via": "dial", "host": "name", "store": "system"},
                      "script": {"resp": "success", "rc": 0, "inj": "none", "hs": "trusted"},
                      "ev": [{"e": "accept"}, {"e": "clear", "k": "starttls"}, {"e": "hello"},
                             {"e": "result", "r": "ok", "late": False, "held": 1},
                             {"e": "bindseen", "ch": "tls"}, {"e": "bindresult", "rc": 49}]})
    for x in (out, ob, tout):
        if os.path.exists(x):
            os.remove(x)
    chk.rule.append("establishment: every adversary script of MCSetupEst_dial played against with_settings; the handle's in-use "
                    "set is read when the call returns and must be empty (EstablishedClean of spec/Setup.tla, validated by TraceSetup)")
    S.cleanup(chk)


def run(tier):
    return L.run_lane("C13", tier, MC[tier], PROFILES[tier], RULE, scripts=SCRIPTS[tier], selftests=[("snapshot", L.corrupt_snapshot, ("inv:NoLeak", "quiet:more"))], extra=extra_all)


def replay(path):
    return L.replay("C13", path, run)
