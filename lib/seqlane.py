"""Shared machinery of the sequential-handle lane (C02 requests + modifier discipline, C03 results):
spec/Ldap4511.tla, spec/LdapSeq.tla, spec/MCLdap4511.tla, spec/MCLdapSeq.tla, spec/TraceLdapSeq.tla,
harness/src/bin/seq-run.rs.

One TraceLdapSeq run judges both properties; every rejected record carries the owner ("c02" / "c03") in its BAD line and
each check keeps only its own."""
import json, os, re
import common as C

MOD_WORD = {"controls": "controls-survive", "timeout": "timeout-survives", "search-options": "search-options-survive"}
# TraceLdapSeq names a differing argument by the field of Ldap4511!Denote; the replay names it by the RFC 4511 component
RFC_NAME = {
    "search": {"base": "baseObject", "scope": "scope", "deref": "derefAliases", "size": "sizeLimit", "time": "timeLimit",
               "typesonly": "typesOnly", "filter": "filter", "attrs": "attributes"},
    "bind": {"ver": "version", "dn": "name", "auth": "authentication", "pw": "authentication", "mech": "authentication",
             "hascreds": "authentication", "creds": "authentication"},
    "saslext": {"ver": "version", "dn": "name", "auth": "authentication", "mech": "authentication",
                "hascreds": "authentication", "creds": "authentication"},
    "modify": {"dn": "object", "mods": "changes"},
    "add": {"dn": "entry", "attrs": "attributes"},
    "modifydn": {"dn": "entry", "rdn": "newrdn", "delold": "deleteoldrdn", "hassup": "newSuperior", "sup": "newSuperior"},
    "compare": {"dn": "entry", "attr": "ava", "val": "ava"},
    "extended": {"name": "requestName", "hasval": "requestValue", "val": "requestValue"},
    "delete": {"dn": "content"}, "abandon": {"target": "content"},
}
ALL_RESULT_OPS = {"bind", "search", "modify", "add", "delete", "modifydn", "compare", "extended"}


def build():
    """common.build_harness restricted to this lane's binary: other lanes are being developed in the same crate, and a
    binary of theirs that does not compile at the moment must not turn this check into a tool error."""
    import subprocess, sys, time
    t0 = time.time()
    if not os.path.exists(os.path.join(C.HARNESS, "Cargo.lock")):
        raise C.ToolError("harness/Cargo.lock missing")
    env = dict(os.environ, CARGO_NET_OFFLINE="true")
    cmd = ["cargo", "build", "--release", "--offline", "--bin", "seq-run"]
    if C.ALT_REPO:
        cmd += ["--config", 'paths=["%s","%s/lber"]' % (C.ALT_REPO, C.ALT_REPO), "--target-dir", os.path.join(C.RUN, "target")]
    p = subprocess.run(cmd, cwd=C.HARNESS, env=env, stdout=subprocess.PIPE, stderr=subprocess.STDOUT, text=True)
    if p.returncode != 0:
        sys.stdout.write(p.stdout[-6000:])
        raise C.ToolError("harness / hooked ldap3 build failed")
    return time.time() - t0


def seeds_of(out):
    with open(out, errors="replace") as f:
        for line in f:
            if line.startswith("<<"):
                continue
            m = re.match(r"Finished computing initial states: (\d+) distinct state", line)
            if m:
                return int(m.group(1))
    return 0


def mc_replay(chk, module, cfg, name, source, workers=6, timeout=600, heap=None, count_rule=None):
    """TLC run of a generator module + replay of its VEC lines into seq-run. Returns (tlc result, harness report)."""
    out = os.path.join(chk.dir, name + ".out")
    res = C.tlc(module, cfg, out, workers=workers, timeout=timeout, heap=heap)
    chk.model("%s/%s" % (module, cfg), res)
    rep_path = os.path.join(chk.dir, name + "-replay.json")
    C.harness("seq-run", ["replay", out, rep_path], timeout=timeout)
    rep = C.load(rep_path)
    seeds = seeds_of(out)
    os.remove(out)
    nvec = rep.get("counters", {}).get("vectors", 0)
    want = count_rule(res, seeds) if count_rule else res["distinct"] - seeds
    if res["ok"] and nvec != want:
        chk.tool_error("%s: the harness saw %d vectors, TLC has %d value states (distinct %d, %d seeds)"
                       % (name, nvec, want, res["distinct"], seeds))
    return res, rep


def expect_violation(chk, module, cfg, name, invariant):
    out = os.path.join(chk.dir, name + ".out")
    res = C.tlc(module, cfg, out, workers=2, timeout=300)
    chk.model("%s/%s" % (module, cfg), res, expect_violation=invariant)
    os.remove(out)


_BAD = re.compile(r'^<<"BAD", (\d+)((?:, "[^"]*")+)>>')


def bad_lines(path):
    """-> list of (record index, [tag parts])"""
    out = []
    with open(path, errors="replace") as f:
        for line in f:
            m = _BAD.match(line)
            if m:
                out.append((int(m.group(1)), re.findall(r'"([^"]*)"', m.group(2))))
    return out


def key_of(parts):
    """class key of a BAD line (same vocabulary as the replay keys of seq-run)"""
    if parts[:2] == ["c02", "mods"]:
        return "c02:mods:%s-%s" % (MOD_WORD.get(parts[2], parts[2]), parts[3])
    if parts[:2] == ["c02", "pdu"]:
        op, part, out = parts[2], parts[3], parts[4] if len(parts) > 4 else ""
        if part == "outcome":
            return "c02:pdu:%s:outcome-%s" % (op, out)
        return "c02:pdu:%s:%s" % (op, RFC_NAME.get(op, {}).get(part, part))
    if parts[:2] == ["c03", "ret"]:
        parts = parts[:2] + ["bind" if parts[2] == "saslext" else parts[2]] + parts[3:]
        if parts[3] == "no-result":
            return "c03:%s:no-result-%s" % (parts[2], parts[4] if len(parts) > 4 else "")
        return "c03:%s:%s" % (parts[2], parts[3])
    return ":".join(parts)


ALL_REQUEST_OPS = ALL_RESULT_OPS | {"saslext", "abandon", "unbind"}


def collapse_ops(problems):
    """c03:<op>:<what> reported for every result-carrying operation is one defect of the common result decoder;
    c02:pdu:<op>:<what> reported for every operation is one defect of the common envelope/control encoder."""
    def split(key):
        p = key.split(":")
        if len(p) >= 3 and p[0] == "c03" and p[1] in ALL_RESULT_OPS:
            return "c03", p[1], ":".join(p[2:]), ALL_RESULT_OPS
        if len(p) >= 4 and p[:2] == ["c02", "pdu"] and p[2] in ALL_REQUEST_OPS:
            return "c02:pdu", p[2], ":".join(p[3:]), ALL_REQUEST_OPS
        return None
    seen = {}
    for key, case, source in problems:
        sp = split(key)
        if sp:
            seen.setdefault((sp[0], sp[2], source), set()).add(sp[1])
    out, done = [], set()
    for key, case, source in problems:
        sp = split(key)
        if sp and seen[(sp[0], sp[2], source)] >= sp[3]:
            g = (sp[0], sp[2], source)
            if g in done:
                continue
            done.add(g)
            out.append(("%s:every-operation:%s" % (sp[0], sp[2]), dict(case, also="same class for every operation"), source))
        else:
            out.append((key, case, source))
    return out


def small(rec):
    r = dict(rec)
    for f in ("wire", "resp"):
        if isinstance(r.get(f), list):
            r[f] = bytes(r[f]).hex()
    return C.shrink(r, 900)


def gen_trace(chk, ncalls, name="impl"):
    tr = os.path.join(chk.dir, name + ".ndjson")
    trep = os.path.join(chk.dir, name + "-gen.json")
    C.harness("seq-run", ["trace", tr, ncalls, trep])
    return tr, C.load(trep)


def validate_trace(chk, owner, trace_path, name, source, timeout=900, count=True):
    """TraceLdapSeq over an ndjson file; the BAD lines of `owner` become problems. Returns (#records, #calls, bad)."""
    out = os.path.join(chk.dir, name + ".out")
    res = C.tlc("TraceLdapSeq", "TraceLdapSeq.cfg", out, workers=1, env={"TRACE": trace_path}, timeout=timeout)
    recs = [json.loads(l) for l in open(trace_path)]
    ncalls = sum(1 for r in recs if r.get("ev") == "Call")
    if not res["ok"] or res["depth"] != len(recs) + 1:
        chk.tool_error("TraceLdapSeq did not consume %s (depth %s of %d records): %s\n%s"
                       % (os.path.basename(trace_path), res["depth"], len(recs), res["error"], res.get("tail", "")[-1200:]))
        return len(recs), ncalls, []
    bad = [(i, parts) for i, parts in bad_lines(out) if parts and parts[0] == owner]
    other = sum(1 for i, parts in bad_lines(out) if parts and parts[0] != owner)
    os.remove(out)
    if count:
        chk.traces += ncalls
        chk.extra.setdefault("trace_validation", []).append(
            dict(module="TraceLdapSeq", file=os.path.basename(trace_path), records=len(recs), calls=ncalls,
                 rejected_for_this_property=len(bad), rejected_for_the_sibling_property=other, wall_s=round(res["wall"], 1)))
        by = {}
        for i, parts in bad:
            by.setdefault(key_of(parts), []).append(i)
        for key, idx in sorted(by.items()):
            cases = []
            for i in idx[:3]:
                # the rounds of the episode up to the rejected call
                j = i - 1
                while j > 0 and recs[j - 1].get("ev") != "Reset":
                    j -= 1
                ctx = [("%s(%s)" % (r["ev"], r.get("op") or r.get("w", {}).get("what") or r.get("last"))) for r in recs[j - 1:i - 1]]
                cases.append(dict(record=i, episode_so_far=ctx, call=small(recs[i - 1])))
            chk.problem(key, dict(count=len(idx), cases=cases), source)
    return len(recs), ncalls, bad


def selftest(chk, owner, trace_path, mutate, name, want_prefix):
    """Binding self-test: the first record `mutate` can corrupt is cut out with its episode prefix; TraceLdapSeq must
    reject exactly that record for `owner` with a tag starting with want_prefix."""
    recs = [json.loads(l) for l in open(trace_path)]
    # never corrupt a record the real trace already has trouble with: use a clean copy of the episode
    tried = 0
    for i, r in enumerate(recs):
        if r.get("ev") != "Call":
            continue
        m = mutate(json.loads(json.dumps(r)))
        if m is None:
            continue
        tried += 1
        if tried > 6:
            break
        j = i
        while j > 0 and recs[j].get("ev") != "Reset":
            j -= 1
        good = recs[j:i + 1]
        p0 = os.path.join(chk.dir, "selftest-%s-base.ndjson" % name)
        with open(p0, "w") as f:
            for x in good:
                f.write(json.dumps(x) + "\n")
        out0 = os.path.join(chk.dir, "selftest-%s-base.out" % name)
        r0 = C.tlc("TraceLdapSeq", "TraceLdapSeq.cfg", out0, workers=1, env={"TRACE": p0}, timeout=120)
        if not r0["ok"] or any(parts and parts[0] == owner for _, parts in bad_lines(out0)):
            continue            # this episode is itself rejected for this property (a finding); take another one
        p = os.path.join(chk.dir, "selftest-%s.ndjson" % name)
        with open(p, "w") as f:
            for x in good[:-1] + [m]:
                f.write(json.dumps(x) + "\n")
        out = os.path.join(chk.dir, "selftest-%s.out" % name)
        res = C.tlc("TraceLdapSeq", "TraceLdapSeq.cfg", out, workers=1, env={"TRACE": p}, timeout=120)
        bad = bad_lines(out)
        ok = res["ok"] and any(i2 == len(good) and parts[0] == owner and key_of(parts).startswith(want_prefix) for i2, parts in bad)
        chk.extra.setdefault("binding_selftest", []).append(
            dict(name=name, corrupted_record_rejected=ok, classes=sorted({key_of(parts) for _, parts in bad})))
        if not ok:
            chk.tool_error("selftest %s: the corrupted record was not rejected as %s* (got %s)" % (name, want_prefix, bad))
        return
    # no clean episode to corrupt: with findings all over the trace that is a consequence of them, not a tool problem
    if chk.problems:
        chk.extra.setdefault("binding_selftest", []).append(
            dict(name=name, corrupted_record_rejected=None, skipped="every candidate episode is already rejected (see the violations)"))
    else:
        chk.tool_error("selftest %s: no record to corrupt" % name)


def vacuity(chk, counters, required):
    missing = [k for k in required if counters.get(k, 0) == 0]
    if missing:
        chk.tool_error("vacuous run: nothing of class(es) %s was exercised" % ", ".join(missing))
