"""C18 - connection setup honours the URL and fails cleanly on bad input.
 (a) TLC enumerates the whole decision table Setup!Decide (spec/MCSetupRows.tla: scheme x host x port x ldapi path x
     pre-opened stream x starttls x timeout x endpoint state), checks the table's consistency laws on every row and prints
     one vector per canonical row with concrete URL spellings of the row's URL class;
 (b) setup-run instantiates every vector with real loopback listeners (ephemeral ports; 127.0.0.1/127.0.0.2/::1 ports 389
     and 636 for the default-port rows, serialised by run/setup-ports.lock), Unix sockets and pre-opened streams, calls
     LdapConnAsync::with_settings and LdapConn::with_settings, and compares which listener was reached, what arrived there
     (nothing / StartTLS request / TLS ClientHello; a bind after establishment) and which error class came back with what
     TLC printed (S -> I); panics and hangs are observations;
 (c) the observations are re-judged by TLC (TraceSetup recomputes Decide on the row's classes), and seeded random URL
     strings (grammar + byte mutation), classified by the url crate, are judged the same way (I -> S)."""
import json, os
import common as C
import setuplane as L

#          MC cfg                       spellings  apis    random URLs  TLC timeout
CFG = {"quick": ("MCSetupRows_quick.cfg", "1", "alt", 1500, 300),
       "thorough": ("MCSetupRows_thorough.cfg", "all", "both", 5000, 900)}

# what the replay must have seen at least once (vacuity)
NEED = ["scheme_ldap", "scheme_ldaps", "scheme_ldapi", "scheme_other", "scheme_unparsable", "api_async", "api_sync",
        "kind_Ok", "kind_Err", "kind_OkOrErr", "kind_Pending", "result_ok", "result_err", "result_pending",
        "reached_url_plain", "reached_url_tls", "reached_url_starttls", "reached_stream_plain", "reached_stream_tls",
        "reached_stream_starttls", "reached_unix_plain", "reached_fam_v4", "reached_fam_v6", "reached_fam_unix",
        "errclass_UrlParsing", "errclass_UnknownScheme", "errclass_EmptyUnixPath", "errclass_MismatchedStreamType",
        "errclass_Io", "errclass_Timeout"]
NEED_DEFAULT = ["reached_p389_plain", "reached_p389_starttls", "reached_p636_tls"]
NEED_TRACE = ["origin_grammar", "origin_mutated", "scheme_ldap", "scheme_ldaps", "scheme_ldapi", "scheme_other",
              "scheme_unparsable", "host_absent", "endpoint_listening", "endpoint_refused"]

ROW = {"scheme": "ldap", "host": "name", "port": "given", "path": "absent", "stream": "none", "starttls": False,
       "timeout": "none", "endpoint": "listening"}


def selftests(chk):
    good = {"result": "ok", "cls": "", "where": "url", "fam": "v4", "sec": "plain", "late": False}
    L.selftest_fixed(chk, "row-accepted", {"kind": "row", "row": ROW, "obs": good}, expect_reject=False)
    L.selftest_fixed(chk, "row-wrong-port", {"kind": "row", "row": ROW, "obs": dict(good, where="p389")})
    L.selftest_fixed(chk, "row-downgrade", {"kind": "row", "row": dict(ROW, scheme="ldaps"), "obs": good})
    L.selftest_fixed(chk, "row-panic", {"kind": "row", "row": dict(ROW, host="absent", port="absent"),
                                        "obs": dict(good, result="panic", where="none", fam="none", sec="none")})
    L.selftest_fixed(chk, "row-ldapi-port-accepted",
                     {"kind": "row", "row": dict(ROW, scheme="ldapi", port="absent", path="withport"),
                      "obs": dict(good, where="unix", fam="unix")})
    L.selftest_fixed(chk, "row-late", {"kind": "row", "row": dict(ROW, scheme="ldaps", timeout="short", endpoint="silent"),
                                       "obs": dict(good, result="err", cls="Timeout", where="url", sec="tls", late=True)})
    L.selftest_fixed(chk, "url-panic", {"kind": "url", "row": dict(ROW, endpoint="unknown"),
                                        "obs": {"result": "panic", "cls": "", "late": False}})
    L.selftest_fixed(chk, "url-unknown-scheme-ok", {"kind": "url", "row": dict(ROW, scheme="other", endpoint="unknown"),
                                                    "obs": {"result": "ok", "cls": "", "late": False}})


def run(tier):
    chk = C.Check("C18", "model_checking", tier)
    C.build_harness()
    cfg, spell, apis, nurls, tmo = CFG[tier]
    d = chk.dir
    env = {"VERIF_SETUP_DIR": L.workdir(chk)}
    # (a)
    out = os.path.join(d, "mcrows.out")
    res = C.tlc("MCSetupRows", cfg, out, workers=4, timeout=tmo, heap="2g")
    chk.model("MCSetupRows/" + cfg, res)
    nvec_tlc = sum(1 for _ in C.tagged_lines(out, "VEC"))
    # (b)
    rep_path = os.path.join(d, "rows-replay.json")
    obs = os.path.join(d, "rows-obs.ndjson")
    C.harness("setup-run", ["replay", "rows", out, rep_path, obs, spell, apis], timeout=3000, env=env)
    rep = C.load(rep_path)
    os.remove(out)
    cnt = rep["counters"]
    if cnt.get("vectors", 0) != nvec_tlc or nvec_tlc == 0:
        chk.tool_error("vector count %s differs from what TLC printed (%s)" % (cnt.get("vectors"), nvec_tlc))
    skipped = cnt.get("skipped_default_port_rows", 0)
    missing = [k for k in NEED if cnt.get(k, 0) == 0]
    if not skipped:
        missing += [k for k in NEED_DEFAULT if cnt.get(k, 0) == 0]
    # a tree in which a whole class fails shows up as mismatches, not as vacuity: only complain when nothing disagrees
    if missing and rep["mismatch_total"] == 0:
        chk.tool_error("the replay never observed: %s (vacuous)" % ", ".join(missing))
    chk.report(rep, "S->I replay of MCSetupRows vectors into LdapConnAsync::with_settings / LdapConn::with_settings")
    chk.exhaustive = True
    chk.extra["decision_rows"] = dict(vectors=nvec_tlc, observations=cnt.get("observations", 0),
                                      default_port_observations=cnt.get("default_port_observations", 0),
                                      skipped_default_port_observations=skipped)
    if skipped:
        chk.notes.append("%d observations skipped (not violations): port 389 or 636 on a loopback address could not be bound" % skipped)
    chk.rule.append("S->I: one vector per canonical row of the decision table (scheme {ldap, ldaps, ldapi, other, unparsable} x host "
                    "{name, absent, IPv4, IPv6} x port {absent, given} x ldapi path {absent, percent-encoded, with port, empty with port} "
                    "x std_stream {none, tcp, unix, invalid} x starttls x conn_timeout {none, short} x endpoint {listening, refused, "
                    "silent}), each instantiated with %s URL spelling(s) of its class (upper-case scheme, userinfo, IPv6 literal in two "
                    "forms, trailing slash / DN / query, empty port, empty authority, socket path with a space, lower-case hex) against "
                    "the async and the sync API (%s); non-trivial = not the plain ldap/no-stream/success row, distinct by URL shape and row"
                    % (spell, "both for every row" if apis == "both" else "both, rows with a silent peer alternate"))
    # (c) the same observations judged by TLC
    tout = os.path.join(d, "tracesetup-rows.out")
    C.validate_records(chk, "TraceSetup", "TraceSetup.cfg", obs, tout, L.classify,
                       "I->S: TraceSetup (Decide recomputed on the row's classes) rejected the observation", timeout=tmo)
    for x in (obs, tout):
        if os.path.exists(x):
            os.remove(x)
    # random URL strings
    tr = os.path.join(d, "urls.ndjson")
    trep = os.path.join(d, "urls-gen.json")
    C.harness("setup-run", ["trace", tr, nurls, trep], timeout=3000, env=env)
    g = C.load(trep)
    miss = [x for x in NEED_TRACE if g["counters"].get(x, 0) == 0]
    if miss:
        chk.tool_error("the URL generator produced none of: %s" % ", ".join(miss))
    chk.report(g, "I->S generation of random URL strings (a panic is judged by the harness as well)")
    tout = os.path.join(d, "tracesetup-urls.out")
    C.validate_records(chk, "TraceSetup", "TraceSetup.cfg", tr, tout, L.classify,
                       "I->S: TraceSetup rejected the outcome of a random URL string", timeout=tmo)
    for x in (tr, tout):
        if os.path.exists(x):
            os.remove(x)
    chk.rule.append("I->S: seeded random URL strings (scheme/separator/host/port/tail pools incl. empty authority, missing slashes, "
                    "bad ports, unterminated IPv6 literal, un-encoded socket paths; a third byte-mutated) x random settings (starttls, "
                    "timeout, pre-opened stream kind), alternating async/sync API; URL class from the url crate's parse; never a panic, "
                    "never a hang, error class in the set Decide allows")
    selftests(chk)
    L.split_infra(chk)
    # the same class is usually found by the replay and by TLC: report it once per source but keep the keys identical
    chk.assumptions += [
        "TLC and the CommunityModules Json reader are correct",
        "the url crate's parse is trusted (it is the library's documented front end): the URL class of a random string is read off "
        "its parse; URL classes RFC 3986 can express but the crate refuses (empty host with a port) may be reported as unparsable",
        "real sockets and real time: only outcome classes are compared; 'short' timeout = 600 ms, late = more than 2.5 s over it, "
        "'pending' = still running after 1.2 s where the table allows blocking and after 5 s where it does not",
        "'silent' endpoint = a peer that accepts and reads but never writes; 'refused' = a bound, non-listening port or a missing "
        "socket file; a pre-opened stream is connected to a live peer (silent iff endpoint = silent) while the URL's own address "
        "follows `endpoint`, so a library that dials the URL although a stream was given is caught by the refused rows",
        "TLS rows use a connector that trusts the run's private CA; for IPv6-literal rows it does not check the certificate name, "
        "because ldap3 passes the bracketed form '[::1]' to native-tls as the name to verify, which no certificate matches "
        "(observation reported separately; fails closed)",
        "when 127.0.0.x/::1 port 389 or 636 cannot be bound the default-port observations are counted as skipped, not as violations",
        "which error class among several applicable ones is reported first is not compared (any of them is accepted)",
    ]
    L.cleanup(chk)
    return chk.finish()


def replay(path):
    return L.replay_generic("C18", path, run)
