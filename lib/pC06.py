"""C06 - message framing does not depend on how the byte stream is segmented.
 (a) TLC checks C06's laws on the reference stream decoder (spec/Framing.tla) for every list of <= 3 pool messages and EVERY
     chunking of their concatenation (MCFraming): out is a prefix of the list, nothing is emitted before its last octet is
     buffered nor later than the step that buffered it, the buffer is exactly the unconsumed suffix;
 (b) S -> I: every transition of that graph - (buffer, chunk) -> drained messages + octets left, buffer -> one decode - is
     replayed through ldap3::verif::decode;
 (c) I -> S: a live LdapConnAsync over the in-process transport receives message sequences of 7 octets .. > 64 KiB (1 MiB in
     thorough) one octet at a time / whole / per message / split inside every header / one octet around every frame end /
     random; after every chunk the harness records how many messages callers hold; TraceFraming recomputes the frame extents
     from the outer headers and requires delivered = frames completed, per chunk, in order, with their tokens."""
import json, os
import common as C
import framelane as F

CFG = {"quick": ("MCFraming_quick.cfg", 300, 600), "thorough": ("MCFraming_thorough.cfg", 2400, 3000)}


def run(tier):
    chk = C.Check("C06", "model_checking", tier)
    C.build_harness()
    cfg, tmo, etmo = CFG[tier]
    d = chk.dir
    # (a) + (b)
    out = os.path.join(d, "mcframing.out")
    res = F.tlc_vectors(chk, "MCFraming", cfg, out, tmo)
    rep = F.run_report(chk, ["replay-framing", out], os.path.join(d, "replay.json"),
                       "S->I replay of every MCFraming transition into ldap3::verif::decode", timeout=tmo)
    os.remove(out)
    c = rep["counters"]
    if res["ok"] and c.get("vectors", 0) != res["generated"] - c.get("message_lists", 0):
        chk.tool_error("vector count %s differs from TLC's transitions %s - %s initial states"
                       % (c.get("vectors"), res["generated"], c.get("message_lists")))
    for need in ("dec_expect_msg", "dec_expect_needmore", "reads_emitting_2plus"):
        if not c.get(need):
            chk.tool_error("vacuous replay: no %s vectors" % need)
    chk.exhaustive = True
    chk.rule.append("S->I: one vector per transition of MCFraming (all lists of <= 3 messages from a pool of 7..135-octet messages "
                    "with and without controls, minimal and long-form outer lengths, x every (buffer, chunk) split); a vector is "
                    "non-trivial when the buffer holds at least a header or a message is emitted, distinct by (buffer, chunk) bytes")
    # (c)
    tr = os.path.join(d, "e2e.ndjson")
    g = F.run_report(chk, ["e2e", tr, tier], os.path.join(d, "e2e.json"), "I->S generation (live connection, in-process transport)", timeout=etmo)
    if g["counters"].get("setup_failures"):
        chk.tool_error("e2e: %s scenarios could not be set up" % g["counters"]["setup_failures"])
    if not g["counters"].get("streams_beyond_64k"):
        chk.tool_error("vacuous e2e: no stream beyond 64 KiB")
    C.validate_records(chk, "TraceFraming", "TraceFraming.cfg", tr, os.path.join(d, "traceframing.out"), F.classify_e2e,
                       "I->S: TraceFraming rejected what callers of a live connection observed", timeout=etmo)
    chk.rule.append("I->S: streams of 4..16 messages (7 octets .. %s) x chunkings {1 octet, whole, per message, k octets into every "
                    "header, one octet before/after every frame end, seeded random with maximum chunk 3..70000}; non-trivial = more "
                    "than one chunk or message, distinct by (sizes, chunking)" % ("1 MiB" if tier == "thorough" else "70 000 octets"))

    # binding self-test: the ideal record for a stream (what the specification demands), then one corruption of it;
    # built from the record's inputs only, so it exists even when the code under test misbehaves
    def ideal(r):
        r = json.loads(json.dumps(r))
        exp = F.e2e_expected(r)
        steps = []
        for i, j in enumerate(exp, 1):
            if steps and steps[-1][0] == j:
                steps[-1][1] = i
            else:
                steps.append([j, i])
        r["steps"], r["late"] = steps, False
        r["fin"] = {d: [m["tok"] for m in r["msgs"] if m["d"] == d] for d in ("s", "b", "c")}
        return r

    def later(r):
        r = ideal(r)
        if len(r["steps"]) >= 2 and r["nchunks"] > r["steps"][0][0] and r["steps"][1][0] > r["steps"][0][0] + 1:
            r["steps"][0][0] += 1          # first message reported one chunk later than its last octet
            return r
        return None

    def earlier(r):
        r = ideal(r)
        if len(r["steps"]) >= 2 and r["steps"][1][0] - r["steps"][0][0] >= 2:
            r["steps"][1][0] -= 1          # second delivery reported one chunk before its last octet
            return r
        return None

    def reordered(r):
        r = ideal(r)
        if len(r["fin"]["s"]) >= 3 and r["fin"]["s"][0] != r["fin"]["s"][1]:
            r["fin"]["s"][0], r["fin"]["s"][1] = r["fin"]["s"][1], r["fin"]["s"][0]
            return r
        return None
    C.selftest_record(chk, "TraceFraming", "TraceFraming.cfg", tr, later, "delivered-one-chunk-late")
    C.selftest_record(chk, "TraceFraming", "TraceFraming.cfg", tr, earlier, "delivered-one-chunk-early")
    C.selftest_record(chk, "TraceFraming", "TraceFraming.cfg", tr, reordered, "two-entries-swapped")
    os.remove(tr)
    # (d) framing while the client is busy: in the connection lane (LdapConn.tla, TraceLdapConn.tla) a response is delivered in
    # two parts with client operations (new requests, Abandons, timeouts, finishes) and clock ticks between the parts
    import connlane as L
    L.lane_into(chk, "C06", [], [("split", 200 if tier == "quick" else 3000)],
                "connection lane, profile `split`: 40 % of the responses are delivered in two parts at different steps; anything the "
                "model cannot explain while a part is outstanding is (also) C06's", [])
    chk.assumptions += ["TLC and the CommunityModules Json reader are correct",
                        "spec/Framing.tla transcribes RFC 4511 4.1.1 / 5.1 framing correctly (cross-checked against the constructors of FramePool by MCFraming's ASSUMEs)",
                        "decode() depends on the buffer contents only (BytesMut capacity/allocation history is not varied beyond append-after-old-contents)",
                        "the in-process transport delivers exactly the chunks the harness pushes (a chunk larger than the free read buffer is split by the transport adapter, as a socket would)"]
    return chk.finish()


def replay(path):
    r = C.load(path)
    print("replay of %s: class %s; re-running the quick check" % (path, r.get("key")))
    return run("quick")
