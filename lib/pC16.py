"""C16 - the PagedResults adapter returns the whole result set exactly once.
Owner of the paging observables of the SearchStream lane (see streamlane.py): the sequence of SearchRequests the scripted
server receives (first: requested size + empty cookie; every follow-up: same base/scope/filter/attributes/options/other
controls with the cookie last returned; none after the first empty cookie or a response without paging control), the
concatenation of all pages' items in order exactly once on PR, EO.PR and PR.EO, no paging control in any result finish()
hands out, AdapterInit for a caller-supplied paging control.  Class keys `c16:...`."""
import streamlane


def run(tier):
    return streamlane.run("C16", tier)


def replay(path):
    return streamlane.replay("C16", path)
