"""C17 - requested TLS is never silently downgraded.
 (a) TLC model-checks the establishment machine of spec/Setup.tla (Tcp -> StartTlsSent -> Handshake -> Ready | Failed |
     Pending) for every adversary script x (ldaps | ldap+StartTLS) x (verify on/off) x (custom connector trusting the test
     CA | default connector) x (conn_timeout none | short) over every sequence of observable events, with the invariants
     NoCleartextLdap, ReadyImpliesProtected, InjectedNeverParsed, TimeoutBoundsAll, FaultsFail and the tightness of Verdict;
     one vector per (configuration, script);
 (b) setup-run plays every script with a scripted loopback server (native-tls acceptor, certificates made by the openssl
     CLI at run time) against LdapConnAsync::with_settings: every byte received before the handshake is decoded, the result
     of establishment is observed (a hang is an observation), and after a success a bind is made whose cleartext-injected
     success response must not be the one returned (the real one, inside TLS, says 49); compared with Verdict (S -> I);
 (c) the observed event sequence of every script is validated by TraceSetup as a behaviour of the machine with the
     invariants on (I -> S)."""
import os
import common as C
import setuplane as L

CFG = {"quick": ("MCSetupEst_quick.cfg", 300), "thorough": ("MCSetupEst_thorough.cfg", 900)}

NEED = ["mode_ldaps", "mode_starttls", "result_ok", "result_err", "result_pending",
        "resp_success", "resp_refuse", "resp_garbage", "resp_close", "resp_hangup", "resp_wrongid", "resp_stall",
        "inj_none", "inj_before", "inj_with", "inj_after",
        "hs_trusted", "hs_untrusted", "hs_wrongName", "hs_stall", "hs_close", "hs_garbage",
        "connector_custom_verify_true", "connector_custom_verify_false", "connector_default_verify_true",
        "connector_default_verify_false", "timeout_none", "timeout_short", "via_dial", "via_stream-last", "via_stream-first", "via_unix",
        "ready_verify_true_cert_trusted", "ready_verify_false_cert_untrusted", "ready_verify_false_cert_wrongName",
        "ready_with_injection_real_answer_returned"]

CF = {"mode": "starttls", "verify": True, "connector": "custom", "timeout": "none", "via": "dial", "host": "name", "store": "system"}
SC = {"resp": "success", "rc": 0, "inj": "with", "hs": "trusted"}
GOOD = [{"e": "accept"}, {"e": "clear", "k": "starttls"}, {"e": "hello"}, {"e": "result", "r": "ok", "late": False, "held": 0},
        {"e": "bindseen", "ch": "tls"}, {"e": "bindresult", "rc": 49}]


def selftests(chk):
    def rec(cfg, sc, ev):
        return {"kind": "script", "cfg": cfg, "script": sc, "ev": ev}
    L.selftest_fixed(chk, "script-accepted", rec(CF, SC, GOOD), expect_reject=False)
    L.selftest_fixed(chk, "injected-answer-returned", rec(CF, SC, GOOD[:5] + [{"e": "bindresult", "rc": 0}]))
    L.selftest_fixed(chk, "cleartext-bind-before-hello", rec(CF, SC, GOOD[:2] + [{"e": "bindseen", "ch": "clear"}] + GOOD[2:]))
    L.selftest_fixed(chk, "cleartext-pdu-on-ldaps", rec(dict(CF, mode="ldaps"), dict(SC, resp="na", inj="none"),
                                                        [GOOD[0], {"e": "clear", "k": "bind"}] + GOOD[2:]))
    L.selftest_fixed(chk, "established-after-refusal", rec(CF, dict(SC, resp="refuse", rc=2, inj="none"), GOOD))
    L.selftest_fixed(chk, "untrusted-cert-accepted", rec(CF, dict(SC, hs="untrusted"), GOOD))
    L.selftest_fixed(chk, "default-connector-accepts-private-ca", rec(dict(CF, connector="default"), SC, GOOD))
    L.selftest_fixed(chk, "established-without-handshake", rec(CF, SC, GOOD[:2] + GOOD[3:]))
    L.selftest_fixed(chk, "pending-after-close", rec(CF, dict(SC, resp="close", inj="none"),
                                                     GOOD[:2] + [{"e": "result", "r": "pending", "late": False, "held": -1}]))
    L.selftest_fixed(chk, "late-despite-timeout", rec(dict(CF, timeout="short"), dict(SC, resp="stall", inj="none"),
                                                      GOOD[:2] + [{"e": "result", "r": "err", "late": True, "held": -1}]))


def run(tier):
    chk = C.Check("C17", "fault_enumeration", tier)
    C.build_harness()
    cfg, tmo = CFG[tier]
    d = chk.dir
    env = {"VERIF_SETUP_DIR": L.workdir(chk)}
    out = os.path.join(d, "mcest.out")
    res = C.tlc("MCSetupEst", cfg, out, workers=4, timeout=tmo, heap="2g")
    chk.model("MCSetupEst/" + cfg, res)
    nvec_tlc = sum(1 for _ in C.tagged_lines(out, "VEC"))
    rep_path = os.path.join(d, "est-replay.json")
    obs = os.path.join(d, "est-obs.ndjson")
    # two processes, each preceded by one honest connection (verification off / on): an outcome must not depend on which
    # TLS connection the process happened to open first (a cached connector would carry its verification setting over)
    C.harness("setup-run", ["replay", "est", out, rep_path, obs], timeout=3000, env=dict(env, SETUP_WARMUP="noverify"))
    rep = C.load(rep_path)
    rep2_path = os.path.join(d, "est-replay-2.json")
    obs2 = os.path.join(d, "est-obs-2.ndjson")
    C.harness("setup-run", ["replay", "est", out, rep2_path, obs2], timeout=3000, env=dict(env, SETUP_WARMUP="verify"))
    rep2 = C.load(rep2_path)
    # third process: the trust store of the default connector contains the test CA (SSL_CERT_FILE)
    rep3_path = os.path.join(d, "est-replay-3.json")
    obs3 = os.path.join(d, "est-obs-3.ndjson")
    C.harness("setup-run", ["replay", "est", out, rep3_path, obs3], timeout=3000, env=dict(env, SETUP_STORE="withCA"))
    rep3 = C.load(rep3_path)
    rep3["lane"] = rep3["lane"] + " (trust store with the test CA)"
    chk.report(rep3, "S->I: adversary scripts of MCSetupEst, third process (store = withCA)")
    c3 = rep3["counters"]
    for k in ("default_withCA_verify_name_trusted_ok", "default_withCA_verify_ip_trusted_ok", "default_withCA_verify_ip_wrongName_err",
              "default_withCA_verify_name_wrongName_err"):
        if c3.get(k, 0) == 0 and rep3["mismatch_total"] == 0:
            chk.tool_error("the store=withCA process never observed %s (is SSL_CERT_FILE honoured?)" % k)
    rep2["lane"] = rep2["lane"] + " (first TLS connection of the process verifies)"
    rep["lane"] = rep["lane"] + " (first TLS connection of the process does not verify)"
    chk.report(rep2, "S->I: adversary scripts of MCSetupEst, second process")
    if rep["counters"].get("warmup_noverify", 0) != 1 or rep2["counters"].get("warmup_verify", 0) != 1:
        chk.tool_error("the warm-up connection was not made")
    with open(obs, "a") as f:
        f.write(open(obs2).read())
        f.write(open(obs3).read())
    os.remove(obs3)
    os.remove(out)
    cnt = rep["counters"]
    if cnt.get("vectors", 0) + c3.get("vectors", 0) != nvec_tlc or nvec_tlc == 0 or c3.get("vectors", 0) == 0:
        chk.tool_error("vector counts %s + %s differ from what TLC printed (%s)" % (cnt.get("vectors"), c3.get("vectors"), nvec_tlc))
    missing = [k for k in NEED if cnt.get(k, 0) == 0]
    if missing and rep["mismatch_total"] == 0:
        chk.tool_error("the replay never observed: %s (vacuous)" % ", ".join(missing))
    chk.report(rep, "S->I: adversary scripts of MCSetupEst played against LdapConnAsync::with_settings")
    chk.exhaustive = True
    chk.extra["adversary_scripts"] = dict(scripts=nvec_tlc,
                                          results={k[7:]: v for k, v in cnt.items() if k.startswith("result_")},
                                          error_classes={k[9:]: v for k, v in cnt.items() if k.startswith("errclass_")})
    tout = os.path.join(d, "tracesetup-est.out")
    C.validate_records(chk, "TraceSetup", "TraceSetup.cfg", obs, tout, L.classify,
                       "I->S: TraceSetup: the observed events are not a behaviour of the establishment machine", timeout=tmo)
    for x in (obs, tout):
        if os.path.exists(x):
            os.remove(x)
    selftests(chk)
    L.selftest_fixed(chk, "exchange-id-still-held-when-established",
                     {"kind": "script", "cfg": CF, "script": SC, "ev": GOOD[:3] + [dict(GOOD[3], held=1)] + GOOD[4:]})
    L.split_infra(chk)
    L.disown(chk, "c13:", "C13")
    chk.rule.append("fault enumeration: every (configuration, adversary script) of MCSetupEst - StartTLS response in {success, refusal "
                    "with a non-zero code incl. referral(10)/saslBindInProgress(14), a complete non-LDAP element, close after reading the request, close at once, reply under "
                    "another message ID, silence}, cleartext BindResponse(success) injected {before, in the same write as, after} the "
                    "StartTLS response (ldaps: before the handshake), then {CA-signed localhost leaf, self-signed leaf, CA-signed leaf "
                    "for another name, silence, close, non-TLS bytes} on the ClientHello - also after a refusal/garbage/wrong ID - x "
                    "(ldaps | StartTLS) x no_tls_verify x (connector trusting the CA | default) x (conn_timeout none | 1.5 s) x (the library dials | "
                    "a connected TcpStream handed in with set_std_stream() as the last | as the first setter of the chain); for the dialled "
                    "connection also (server addressed by DNS name | IP literal) x (default connector's trust store without | with the "
                    "test CA) on the scripts in which a certificate is judged; "
                    "non-trivial = the server deviates from the honest script somewhere; distinct by configuration and script")
    chk.assumptions += [
        "TLC and the CommunityModules Json reader are correct",
        "certificate validation itself is OpenSSL's (native-tls): the specification treats it as an oracle with three outcomes which "
        "the harness realises with real certificates; the private CA is unknown to the system trust store, so under the default "
        "connector every test certificate is untrusted; tls-rustls is not built",
        "with verification switched off and a caller-supplied connector, establishing and failing are both accepted (the connector "
        "prevails)",
        "real time: 'short' timeout = 1.5 s, late = more than 2.5 s over it; pending = still running after 1.2 s where the script "
        "stalls and no timeout is configured, after 5 s otherwise; an honest flow that ends in Timeout is reported as a tool error "
        "(overloaded machine), not as a violation",
        "event order: the server logs a PDU when it reads it; a failed or abandoned call's result is placed after everything the server "
        "received on that connection (the client cannot send after returning the error)",
        "a complete non-LDAP element is used as garbage: an incomplete one would legitimately leave the client waiting",
    ]
    L.cleanup(chk)
    return chk.finish()


def replay(path):
    return L.replay_generic("C17", path, run)
