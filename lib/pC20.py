"""C20 - LDAP URL parameters are extracted as RFC 4516 defines them.
 (a) TLC checks on spec/Url4516.tla that the reference reader ParseUrl inverts Format and yields Expected (the
     documented get_url_params result with defaults and error classes) over the component pools of MCUrl, for both
     encoding styles and every number of cut trailing fields;
 (b) every URL of that run is printed as a vector and replayed into url::Url::parse + ldap3::get_url_params (S -> I);
 (c) URLs formatted by the harness' own RFC 4516 formatter from seeded random Unicode components are given to
     get_url_params and TLC recomputes the result from the URL bytes with ParseUrl (TraceUrl, I -> S)."""
import json, os, re
from urllib.parse import unquote_to_bytes
import common as C

#        MC cfg                 trace records (chunks x size)  TLC timeout
CFG = {"quick": ("MCUrl_quick.cfg", 1, 12000, 600), "thorough": ("MCUrl_thorough.cfg", 4, 25000, 3000)}

# what the MC run must have generated at least once (vacuity)
NEED = ["expect_yes", "expect_no", "expect_either", "error_scope", "error_critical-extension", "error_utf8-base",
        "error_utf8-filter", "error_utf8-extension", "ext_bindname", "ext_xbindpw", "ext_credentials", "ext_saslmech",
        "ext_starttls", "attrs_default", "attrs_need_encoding", "filter_default", "scope_sub_default", "scope_base",
        "scope_one", "scope_sub", "style_max", "style_min", "style_bare", "qmarks_0", "qmarks_1", "qmarks_2", "qmarks_3",
        "qmarks_4", "exts_0", "exts_1", "exts_2", "exts_3"]
# generator-side classes only: what the implementation answers must not be able to turn a verdict into a tool error
NEED_TRACE = ["injected_scope", "injected_scope-case-variant", "injected_critical-extension", "injected_utf8-base", "injected_utf8-filter",
              "injected_utf8-extension", "injected_utf8-ignored-extension", "qmarks_0", "qmarks_1", "qmarks_2", "qmarks_3",
              "qmarks_4", "exts_0", "exts_1", "exts_2", "exts_3"]


def _b(x):
    return bytes(x or [])


def classify(r):
    """Name (never judge) a record TraceUrl rejected, from what the generator meant (`gen`) and what came back."""
    g, o = r.get("gen", {}), r.get("out", {})
    if "panic" in o:
        return "trace:panic"
    inj = [i for i in g.get("injected", []) if i not in ("utf8-ignored-extension", "scope-case-variant")]
    if inj and o.get("ok"):
        return "trace:accepted:" + "+".join(sorted(set(inj)))
    if not inj and not o.get("ok"):
        return "trace:rejected:" + str(o.get("err"))
    if o.get("ok"):
        if _b(o["base"]) != _b(g["base"]):
            return "trace:base-differs"
        want = [_b(a) for a in g["attrs"]] or [b"*"]
        got_attrs = [_b(a) for a in o["attrs"]]
        if got_attrs != want and [unquote_to_bytes(a) for a in got_attrs] != want:
            return "trace:attrs-differ" + (":default" if not g["attrs"] else "")
        ws = g["scope"].lower() or "sub"
        if o["scope"] != ws:
            return "trace:scope-differs:%s->%s" % (g["scope"] or "default", o["scope"])
        wf = _b(g["filter"]) or b"(objectClass=*)"
        if _b(o["filter"]) != wf:
            return "trace:filter-differs" + (":default" if not g["filter"] else "")
        got = {e["kind"]: _b(e["val"]) for e in o["exts"]}
        for e in g["exts"]:
            if e["kind"] == "unknown" or e.get("bad"):
                continue
            if e["kind"] not in got:
                return "trace:ext-missing:" + e["kind"]
            if e["kind"] != "starttls" and got[e["kind"]] != _b(e["val"]):
                return "trace:ext-value-differs:" + e["kind"]
        known = {e["kind"] for e in g["exts"]}
        for k in got:
            if k not in known:
                return "trace:ext-unexpected:" + k
    return "trace:spec-and-generator-disagree"


def run(tier):
    chk = C.Check("C20", "model_checking", tier)
    C.build_harness()
    cfg, chunks, per_chunk, tmo = CFG[tier]
    d = chk.dir
    # TLC unpacks the CommunityModules into java.io.tmpdir and leaves them there: keep that inside the run directory
    jtmp = os.path.join(d, "jtmp")
    os.makedirs(jtmp, exist_ok=True)
    os.environ["_JAVA_OPTIONS"] = "-Djava.io.tmpdir=" + jtmp
    # (a) + (b)
    out = os.path.join(d, "mcurl.out")
    res = C.tlc("MCUrl", cfg, out, workers=8, timeout=tmo, heap="4g")
    chk.model("MCUrl/" + cfg, res)
    ninit = None
    with open(out, errors="replace") as f:
        for line in f:
            m = re.match(r"Finished computing initial states: (\d+) distinct", line)
            if m:
                ninit = int(m.group(1))
                break
            if line.startswith('<<"VEC"'):
                break
    rep_path = os.path.join(d, "replay.json")
    C.harness("url-run", ["replay", out, rep_path], timeout=tmo)
    rep = C.load(rep_path)
    os.remove(out)
    nvec = rep["counters"].get("vectors", 0)
    if ninit is None or nvec != res["distinct"] - ninit or nvec == 0:
        chk.tool_error("vector count %s differs from TLC's URL states (%s distinct - %s component-only initial states)"
                       % (nvec, res["distinct"], ninit))
    missing = [k for k in NEED if rep["counters"].get(k, 0) == 0]
    if missing:
        chk.tool_error("MCUrl did not generate these input classes (vacuous): %s" % ", ".join(missing))
    if rep["counters"].get("url_crate_changed_the_string", 0):
        chk.tool_error("the url crate altered %d formatted URLs: Format is supposed to leave it nothing to normalise"
                       % rep["counters"]["url_crate_changed_the_string"])
    chk.report(rep, "S->I replay of MCUrl vectors into Url::parse + get_url_params")
    chk.exhaustive = True
    chk.rule.append("S->I: one vector per URL state of MCUrl = (base, attribute list, scope word, filter, extension list) from the "
                    "pools of spec/MCUrl.tla (each pool contains the omitted value; DNs/filters with ? , = % # space + / non-ASCII "
                    "and non-UTF-8 bytes; scope words valid/invalid/upper-case; extension lists of 0-3 recognised/unknown/critical/"
                    "upper-case entries, never two of one recognised kind) x {max, min} percent-encoding style x every number of "
                    "kept trailing '?' (plus the bare ldap://host form); non-trivial = URL has a percent-escape, an extension or an "
                    "empty inner field, distinct by URL bytes")
    # (c)
    for k in range(chunks):
        tr = os.path.join(d, "impl-%d.ndjson" % k)
        trep = os.path.join(d, "trace-gen-%d.json" % k)
        C.harness("url-run", ["trace", tr, per_chunk, trep], env={"VERIF_SEED": str(C.seed() + 1000003 * k)})
        g = C.load(trep)
        if k == 0:
            miss = [x for x in NEED_TRACE if g["counters"].get(x, 0) == 0]
            if miss:
                chk.tool_error("trace generator produced none of: %s" % ", ".join(miss))
        chk.report(g, "I->S generation (chunk %d)" % k)
        tout = os.path.join(d, "traceurl-%d.out" % k)
        n = C.validate_records(chk, "TraceUrl", "TraceUrl.cfg", tr, tout, classify,
                               "I->S: TraceUrl (reference ParseUrl on the URL bytes) rejected what get_url_params returned",
                               timeout=tmo)
        unspec = sum(1 for _ in C.tagged_lines(tout, "UNSPEC"))
        chk.extra.setdefault("trace_no_verdict_records", []).append(unspec)
        if unspec * 100 > n:
            chk.tool_error("%d of %d trace records are outside the RFC 4516 grammar for ParseUrl (no verdict): generator bug" % (unspec, n))
        if k == 0:
            # corruptions that exist whatever the implementation answered (a mutated implementation must end in a
            # verdict, not in "no record to corrupt")
            def corrupt_base(r):
                if r["out"]["ok"]:
                    r = json.loads(json.dumps(r))
                    r["out"]["base"] = r["out"]["base"] + [65]
                    return r
                return None

            def corrupt_ext(r):
                if r["out"]["ok"] and not any(e["kind"] == "saslmech" for e in r["out"]["exts"]):
                    r = json.loads(json.dumps(r))
                    r["out"]["exts"] = r["out"]["exts"] + [{"kind": "saslmech", "val": [88]}]
                    return r
                return None

            def corrupt_err(r):
                if "scope" in r["gen"]["injected"]:
                    r = json.loads(json.dumps(r))
                    r["out"].update(ok=True, err="", base=[], scope="sub", attrs=[[42]], filter=list(b"(objectClass=*)"), exts=[])
                    return r
                return None
            C.selftest_record(chk, "TraceUrl", "TraceUrl.cfg", tr, corrupt_base, "extend-base")
            C.selftest_record(chk, "TraceUrl", "TraceUrl.cfg", tr, corrupt_ext, "add-extension")
            C.selftest_record(chk, "TraceUrl", "TraceUrl.cfg", tr, corrupt_err, "accept-bad-scope")
        os.remove(tr)
        if os.path.exists(tout):
            os.remove(tout)
    C.shutil.rmtree(jtmp, ignore_errors=True)
    chk.rule.append("I->S: seeded random components (Unicode from all planes, control characters, delimiter-heavy ASCII; 0-3 "
                    "attribute selectors; valid/invalid scope words; 0-3 extensions with random-case names, critical flags; injected "
                    "non-UTF-8 percent sequences) formatted by the harness' own RFC 4516 formatter with random optional encoding, hex "
                    "case, cut fields, scheme and host; TLC recomputes the result from the URL bytes")
    chk.assumptions += [
        "TLC and the CommunityModules Json reader are correct",
        "the url crate (Url::parse, path(), query()) is trusted and in the path; URLs are fully percent-encoded by the formatter "
        "so that the crate has nothing to normalise (checked: as_str() equals the input); a DN that is exactly '.' or '..' is out "
        "of scope because the crate removes dot segments",
        "attribute selectors: percent-decoding is documented for base, filter and extension values only, so for the attribute "
        "list the decoded and the as-written form are both accepted",
        "non-UTF-8 value on an ignored (unknown non-critical) or value-less (StartTLS) extension: error and result both accepted",
        "a case variant of a scope word (BASE, One): ABNF literals are case-insensitive (RFC 5234) while the library documents the "
        "lower-case words, so an error and the result with the scope the word means are both accepted; any other word must be an error",
        "extension names and scope words are written unencoded; duplicate extensions of one recognised kind, '%' not followed by "
        "two hex digits, more than four '?', '#', literal non-ASCII are outside the generated space",
        "only the fact of an error is compared, not which LdapError variant",
    ]
    return chk.finish()


def replay(path):
    r = C.load(path)
    print("replay of %s: class %s" % (path, r.get("key")))
    C.build_harness()          # the probe below must run against the current tree, not a stale binary
    for c in (r.get("case", {}).get("cases") or [])[:3]:
        u = c.get("url") if isinstance(c.get("url"), str) else c.get("_url")
        if u is None and "truncated" in c:
            m = re.match(r'\{"_url": ("(?:[^"\\]|\\.)*")', c["truncated"])
            u = json.loads(m.group(1)) if m else None
        if u:
            print("  url: %s" % u)
            try:
                print(C.harness("url-run", ["probe", u]))
            except C.ToolError as e:
                print("  probe failed: %s" % e)
    print("re-running the %s check" % r.get("tier", "quick"))
    return run(r.get("tier", "quick"))
