"""C02 - each request on the wire is exactly the RFC 4511 PDU the caller asked for; modifiers are one-shot.
 (a) TLC checks the request side of spec/Ldap4511.tla on itself (an independent reader maps every acceptable encoding
     of every request model to what the request denotes; application tags) over the bounded request space (MCLdap4511,
     Dir = "req") and prints one vector per request model; seq-run performs each call on a real Ldap handle over the
     in-process transport and the bytes the scripted server read must be one of the acceptable encodings (S -> I);
 (b) TLC checks ModsOneShot on spec/LdapSeq.tla and enumerates call histories of <= 3 rounds (With* calls, operation,
     answering or silent server) with the expected PDU and outcome of every call (MCLdapSeq); seq-run replays them; two
     further TLC runs with a deviation constant switched on must violate ModsOneShot (the invariant bites);
 (c) I -> S: seeded random episodes (large lists, values across the 127/128 and 255/256 length boundaries, random
     controls and modifiers, silent servers); TraceLdapSeq decodes what the server read with the specification's own
     reader and compares it with the request the call denotes, message ID and modifier discipline included."""
import json, os
import common as C
import seqlane as S

CFG = {"quick": dict(req="MCLdap4511_req_quick.cfg", seq="MCLdapSeq_quick.cfg", calls=1000, tmo=600),
       "thorough": dict(req="MCLdap4511_req_thorough.cfg", seq="MCLdapSeq_thorough.cfg", calls=20000, tmo=3000)}
OPS = ["bind", "saslext", "search", "add", "compare", "delete", "modify", "modifydn", "extended", "abandon", "unbind"]


def run(tier):
    chk = C.Check("C02", "model_checking", tier)
    S.build()
    cfg = CFG[tier]
    # (a)
    res, rep = S.mc_replay(chk, "MCLdap4511", cfg["req"], "requests", "", timeout=cfg["tmo"])
    chk.report(rep, "S->I replay of MCLdap4511 request models into the public API over the in-process transport")
    S.vacuity(chk, rep.get("counters", {}), ["req:" + o for o in OPS] + ["req:controls0", "req:controls1", "req:controls2",
                                                                      "req:several-acceptable-orders"])
    chk.rule.append("S->I (requests): every request model of MCLdap4511 (each operation x its argument pool: empty/1/2-element "
                    "lists, empty, non-ASCII and 130-octet DNs, values with 0x00/0xFF, every scope x deref x typesOnly, size/time "
                    "limits 0,1,127,128,255,256,32767,32768,2^31-1,-1,-128,-129,-2^31, the four modification kinds, 13 filters, "
                    "message IDs at every length boundary, 0/1/2 controls with every criticality/value combination) is one call "
                    "on a fresh handle; the bytes the server read must equal an acceptable encoding (all orders of each SET OF); "
                    "non-trivial = every request model, distinct by its set of acceptable encodings")
    # (b)
    res2, rep2 = S.mc_replay(chk, "MCLdapSeq", cfg["seq"], "histories", "", timeout=cfg["tmo"], count_rule=lambda r, seeds: r["distinct"] - seeds)
    chk.report(rep2, "S->I replay of MCLdapSeq call histories (modifier discipline) on one handle")
    S.vacuity(chk, rep2.get("counters", {}), ["hist:len1", "hist:len2", "hist:len3", "with:controls", "with:timeout", "with:search_options",
                                            "outcome:answered", "outcome:timeout", "outcome:hang", "outcome:local-error", "outcome:null",
                                            "hist:distinguishes-a-known-deviation", "hist:allocator-not-at-zero"])
    S.expect_violation(chk, "MCLdapSeq", "MCLdapSeq_dev_SoptsSurviveNonSearch.cfg", "dev-sopts", "ModsOneShot")
    S.expect_violation(chk, "MCLdapSeq", "MCLdapSeq_dev_ModsSurviveLocalError.cfg", "dev-localerr", "ModsOneShot")
    chk.exhaustive = True
    chk.rule.append("S->I (histories): every history of <= 3 rounds from MCLdapSeq's pools (round = With* calls incl. overwriting, one "
                    "of 14 call shapes incl. locally rejected add/modify/search, answering or silent server; allocator start at "
                    "0 and next to 127/255/32767/2^31-1); per call the wire bytes, the outcome (answered/timeout after exactly the "
                    "duration/hang/null/local-error) are compared; non-trivial = more than one round or a modifier set")
    # (c)
    tr, g = S.gen_trace(chk, cfg["calls"])
    chk.report(g, "I->S generation")
    S.vacuity(chk, g.get("counters", {}), ["call:" + o for o in OPS] + ["wire>=128", "wire>=256", "outcome:timeout", "outcome:hang", "outcome:local-error"])
    S.validate_trace(chk, "c02", tr, "traceldapseq", "I->S: TraceLdapSeq rejected what the scripted server read / how the call ended", timeout=cfg["tmo"])
    chk.rule.append("I->S: seeded random episodes of 1-7 rounds (random With* sequences, random arguments: lists of up to 70 elements, "
                    "strings and values of 0..300 octets around 127/128 and 255/256, random filters of depth <= 2, random i32 limits, "
                    "allocator start next to 2^31-1, 15% silent servers); TraceLdapSeq requires DecodeRequest(wire) = the request the "
                    "call denotes (value sets as multisets), one message per call, nothing trailing, the predicted outcome")

    def flip_wire(r):
        if r.get("ev") == "Call" and len(r.get("wire", [])) > 12 and r.get("out") == "answered":
            r["wire"][-1] = (r["wire"][-1] + 1) % 256
            return r
        return None

    def bump_id(r):
        # the envelope's messageID octet (30 LL 02 01 ID) of a short message
        w = r.get("wire", [])
        if r.get("ev") == "Call" and len(w) > 5 and w[1] < 128 and w[2] == 2 and w[3] == 1 and w[4] < 100:
            w[4] += 1
            return r
        return None

    def append_second(r):
        if r.get("ev") == "Call" and r.get("wire") and r.get("out") in ("answered", "null"):
            r["wire"] = r["wire"] + [48, 5, 2, 1, 9, 66, 0]
            return r
        return None

    def fake_timeout(r):
        if r.get("ev") == "Call" and r.get("out") == "hang":
            r["out"], r["elapsed"] = "timeout", 250
            return r
        return None
    S.selftest(chk, "c02", tr, flip_wire, "flip-last-wire-octet", "c02:pdu:")
    S.selftest(chk, "c02", tr, bump_id, "message-id-plus-one", "c02:pdu:")
    S.selftest(chk, "c02", tr, append_second, "second-message-after-the-request", "c02:pdu:")
    S.selftest(chk, "c02", tr, fake_timeout, "timeout-nobody-asked-for", "c02:")
    os.remove(tr)
    chk.problems = S.collapse_ops(chk.problems)
    chk.assumptions += ["TLC and the CommunityModules Json reader are correct",
                        "spec/Ldap4511.tla transcribes the ASN.1 of RFC 4511 section 4 / appendix B and RFC 4525 correctly (13 hand-assembled "
                        "PDUs are ASSUMEd in MCLdap4511; DecodeRequest is written independently of Request and inverts it on the whole "
                        "request space); spec/Ber.tla (C07), spec/Filter4515.tla (C08) and the envelope of spec/Controls.tla (C19) are reused",
                        "the documented contract of with_controls / with_timeout / with_search_options is 'exactly the next operation "
                        "invoked on the handle', including operations that are rejected before anything is sent",
                        "an empty control vector may be sent as an empty Controls element or be left out",
                        "a timeout is observed through a silent server under tokio's paused clock (the call fails after exactly the "
                        "duration, or not at all within one hour of virtual time)",
                        "GSSAPI/NTLM binds are feature-gated off and not covered"]
    return chk.finish()


def replay(path):
    r = C.load(path)
    print("replay of %s: class %s (%s); re-running the %s check" % (path, r.get("key"), r.get("source"), r.get("tier", "quick")))
    return run(r.get("tier", "quick"))
