"""Shared pieces of the connection-setup lane (C17, C18): spec/Setup.tla, MCSetupRows/MCSetupEst, TraceSetup,
harness/src/bin/setup-run.rs."""
import json, os
import common as C


def workdir(chk):
    d = os.path.join(chk.dir, "w")
    os.makedirs(d, exist_ok=True)
    return d


def split_infra(chk):
    """Class keys starting with 'infra:' (an honest flow ran into the configured timeout: an overloaded machine) are
    tool errors, never verdicts about the code."""
    keep = []
    for key, case, source in chk.problems:
        if key.startswith("infra:"):
            chk.tool_error("%s (%s): %s" % (key, source, json.dumps(case)[:300]))
        else:
            keep.append((key, case, source))
    chk.problems = keep


def disown(chk, prefix, owner):
    """Differences whose class key starts with `prefix` belong to another property's check (which plays the same scripts and
    reports them): here they are a note."""
    keep, moved = [], {}
    for key, case, source in chk.problems:
        if key.startswith(prefix):
            moved[key] = moved.get(key, 0) + 1
        else:
            keep.append((key, case, source))
    chk.problems = keep
    if moved:
        chk.notes.append("establishment: differences owned by %s (not this property): %s" % (owner, ", ".join(sorted(moved))))


def classify(r):
    """Name (never judge) a record TraceSetup rejected: the harness wrote the class of its observation into `key`."""
    return r.get("key") or "trace:unclassified"


def selftest_fixed(chk, name, record, expect_reject=True):
    """Binding self-test with a synthetic record (independent of what the implementation answered): TraceSetup must
    reject a corrupted observation and accept a well-formed one."""
    p = os.path.join(chk.dir, "selftest-%s.ndjson" % name)
    with open(p, "w") as f:
        f.write(json.dumps(record) + "\n")
    out = os.path.join(chk.dir, "selftest-%s.out" % name)
    res = C.tlc("TraceSetup", "TraceSetup.cfg", out, workers=1, env={"TRACE": p}, timeout=120, heap="1g")
    bad = list(C.tagged_lines(out, "BADREC"))
    ok = res["ok"] and (len(bad) == 1) == expect_reject
    chk.extra.setdefault("binding_selftest", []).append(
        dict(name=name, expect="rejected" if expect_reject else "accepted", as_expected=ok))
    if not ok:
        chk.tool_error("selftest %s: TraceSetup did not %s the record (%s)"
                       % (name, "reject" if expect_reject else "accept", res.get("error")))
    for x in (p, out):
        if os.path.exists(x):
            os.remove(x)


def cleanup(chk):
    C.shutil.rmtree(os.path.join(chk.dir, "w"), ignore_errors=True)
    C.shutil.rmtree(os.path.join(chk.dir, "jtmp"), ignore_errors=True)


def replay_generic(pid, path, run):
    r = C.load(path)
    print("replay of %s: class %s (%s)" % (path, r.get("key"), r.get("source")))
    cases = (r.get("case") or {}).get("cases") or []
    C.build_harness()
    for c in cases[:3]:
        u = c.get("url")
        if isinstance(c, dict) and "truncated" in c:
            print("  case (truncated): %s" % c["truncated"][:300])
        if u:
            row = c.get("row") or {}
            args = ["probe", u]
            if row.get("starttls") or (c.get("cfg") or {}).get("mode") == "starttls":
                args.append("starttls")
            print("  url: %s   observed: %s" % (u, json.dumps(c.get("obs") or c.get("out"))))
            try:
                d = os.path.join(C.run_dir(pid + "-replay"), "w")
                print(C.harness("setup-run", args, env={"VERIF_SETUP_DIR": d}, timeout=60))
            except C.ToolError as e:
                print("  probe failed: %s" % e)
    print("re-running the %s check" % r.get("tier", "quick"))
    return run(r.get("tier", "quick"))
