"""C03 - results returned to the caller are exactly what the server sent.
 (a) TLC checks the response side of spec/Ldap4511.tla on itself: DecodeResponse reads every alternative definite-length
     encoding (all elements minimal / all in a k-octet long form / one element at a time in each long form) of every
     response model back as the model (MCLdap4511, Dir = "resp"), and prints the encodings with the struct fields and
     helper outcomes the caller must get;
 (b) S -> I: seq-run performs the operation that belongs to the response kind on a real Ldap handle, the scripted
     server answers with the prescribed bytes, and the returned LdapResult / CompareResult / ExopResult / SearchResult
     and success()/non_error()/equal() are compared field by field;
 (c) I -> S: seeded random responses written with random legal length forms; TraceLdapSeq recomputes
     ret = ResultOf(DecodeResponse(bytes the server sent))."""
import json, os
import common as C
import seqlane as S

CFG = {"quick": dict(resp="MCLdap4511_resp_quick.cfg", calls=1000, tmo=600),
       "thorough": dict(resp="MCLdap4511_resp_thorough.cfg", calls=20000, tmo=3000)}
KINDS = ["bind", "search", "modify", "add", "delete", "modifydn", "compare", "extended"]


def run(tier):
    chk = C.Check("C03", "model_checking", tier)
    S.build()
    cfg = CFG[tier]
    res, rep = S.mc_replay(chk, "MCLdap4511", cfg["resp"], "responses", "", timeout=cfg["tmo"])
    chk.report(rep, "S->I replay of MCLdap4511 response encodings through the scripted server into the public API")
    S.vacuity(chk, rep.get("counters", {}), ["resp:" + k for k in KINDS] + ["resp:non-minimal-encodings", "resp:search-with-reference-message", "resp:with-referral", "resp:with-controls",
                                                                         "resp-group:rc", "resp-group:strings", "resp-group:ctrls", "resp-group:cross",
                                                                         "resp-group:ids", "resp-group:special"])
    # result codes the caller's u32 cannot hold: refused by the specification's reader, so the caller must get an error
    res2, rep2 = S.mc_replay(chk, "MCLdap4511", "MCLdap4511_badrc.cfg", "badrc", "", timeout=300)
    chk.report(rep2, "S->I replay of responses with an unreportable result code (MCLdap4511, Dir = badrc)")
    S.vacuity(chk, rep2.get("counters", {}), ["respfail:" + k for k in KINDS])
    chk.rule.append("S->I: every response kind x resultCode octets in {none, 2^32, 2^32+10, 2^32 with a leading zero octet, 2^64, "
                    "2^64-2^32}: BadRcRefused (the reader refuses them) and the caller gets an error, never a result")
    chk.exhaustive = True
    chk.rule.append("S->I: every response model of MCLdap4511 (eight response kinds x rc in {0,1,5,6,10,14,49,80,88,127,128,255,256,"
                    "65535,2^31-1} x 0-2 referrals x 0-2 controls with every criticality/value combination, also written out as "
                    "FALSE x empty/ASCII/multi-byte matchedDN and diagnosticMessage x extended name/value present/empty/absent x "
                    "serverSaslCreds present/empty/absent x message IDs at the length boundaries), each in its minimal encoding, "
                    "with every element in a 1/2/3/4-octet long length, and with each single element in each long form; an "
                    "evaluation = one encoding answered to one real call; non-trivial = every encoding, distinct by bytes")
    tr, g = S.gen_trace(chk, cfg["calls"])
    chk.report(g, "I->S generation")
    S.vacuity(chk, g.get("counters", {}), ["call:" + o for o in KINDS] + ["outcome:answered"])
    S.validate_trace(chk, "c03", tr, "traceldapseq", "I->S: TraceLdapSeq rejected what the caller was handed", timeout=cfg["tmo"])
    chk.rule.append("I->S: seeded random responses (rc up to 2^31-1, UTF-8 strings of 0..300 octets, 0-3 referrals, 0-3 controls, "
                    "extended name/value, serverSaslCreds; every length field in a random legal form) answered to random calls; "
                    "TraceLdapSeq requires ret = ResultOf(DecodeResponse(response bytes))")

    def ok_rec(r):
        return r.get("ev") == "Call" and r.get("out") == "answered" and isinstance(r.get("ret"), dict) and "rc" in r["ret"]

    def bump_rc(r):
        if ok_rec(r):
            r["ret"]["rc"] += 1
            return r
        return None

    def flip_success(r):
        if ok_rec(r):
            r["ret"]["success"] = not r["ret"]["success"]
            return r
        return None

    def drop_ref(r):
        if ok_rec(r) and r["ret"]["refs"]:
            r["ret"]["refs"] = r["ret"]["refs"][:-1]
            return r
        return None

    def flip_crit(r):
        if ok_rec(r) and r["ret"]["ctrls"]:
            r["ret"]["ctrls"][0]["crit"] = not r["ret"]["ctrls"][0]["crit"]
            return r
        return None

    def swap_text(r):
        if ok_rec(r) and r["ret"]["matched"] != r["ret"]["text"]:
            r["ret"]["matched"], r["ret"]["text"] = r["ret"]["text"], r["ret"]["matched"]
            return r
        return None
    S.selftest(chk, "c03", tr, bump_rc, "result-code-plus-one", "c03:")
    S.selftest(chk, "c03", tr, flip_success, "success-flipped", "c03:")
    S.selftest(chk, "c03", tr, drop_ref, "last-referral-dropped", "c03:")
    S.selftest(chk, "c03", tr, flip_crit, "criticality-flipped", "c03:")
    S.selftest(chk, "c03", tr, swap_text, "matched-and-text-swapped", "c03:")
    os.remove(tr)
    chk.problems = S.collapse_ops(chk.problems)
    chk.assumptions += ["TLC and the CommunityModules Json reader are correct",
                        "spec/Ldap4511.tla transcribes LDAPResult / BindResponse / ExtendedResponse of RFC 4511 correctly (three hand-assembled "
                        "responses are ASSUMEd in MCLdap4511; DecodeResponse is written independently of Response); alternative length forms "
                        "come from spec/Controls.tla (AltEncs) and are legal by Ber!AltLen",
                        "well-formed responses only: UTF-8 text fields, result codes 0..2^31-1, definite lengths of at most four octets "
                        "(everything else is C11's)",
                        "serverSaslCreds of a BindResponse is not part of any public result type; it is only required not to disturb the others",
                        "the known-control tag ldap3 attaches to a response control is C19's; here OID, criticality and value are compared"]
    return chk.finish()


def replay(path):
    r = C.load(path)
    print("replay of %s: class %s (%s); re-running the %s check" % (path, r.get("key"), r.get("source"), r.get("tier", "quick")))
    return run(r.get("tier", "quick"))
