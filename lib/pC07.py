"""C07 - BER encode/parse are inverse; encoding canonical.
 (a) TLC checks the X.690 laws on spec/Ber.tla over a bounded tree/length/integer space (MCBer);
 (b) every state of that run is printed as a vector and replayed into lber (S -> I);
 (c) random trees/integers encoded and parsed by lber are recomputed by TLC (TraceBer, I -> S)."""
import json, os
import common as C

CFG = {"quick": ("MCBer_quick.cfg", 3000, 900), "thorough": ("MCBer_thorough.cfg", 40000, 3600)}


def classify(r):
    if r.get("m") == "int":
        v = int(r["value"])
        if "panic" in r:
            return "int-encode:i64-min:panic" if v == -2**63 else "int-encode:panic"
        return "int-encode:i64-min" if v == -2**63 else ("int-encode:negative" if v < 0 else "int-encode:non-negative")
    return "tree:" + ("encode-or-parse-differs")


def run(tier):
    chk = C.Check("C07", "model_checking", tier)
    C.build_harness()
    cfg, ntrace, tmo = CFG[tier]
    d = chk.dir
    # (a)+(b)
    out = os.path.join(d, "mcber.out")
    res = C.tlc("MCBer", cfg, out, workers=8, timeout=tmo)
    chk.model("MCBer/" + cfg, res)
    rep_path = os.path.join(d, "replay.json")
    C.harness("codec-run", ["ber", "replay", out, rep_path], timeout=tmo)
    rep = C.load(rep_path)
    os.remove(out)
    if rep["counters"].get("vectors", 0) != res["distinct"]:
        chk.tool_error("vector count %s differs from TLC's distinct states %s" % (rep["counters"].get("vectors"), res["distinct"]))
    chk.report(rep, "S->I replay of MCBer vectors into lber")
    chk.exhaustive = True
    chk.rule.append("S->I: one vector per state of MCBer (every tree of the pool grown to depth 2, every 8-octet integer pattern "
                    "over boundary bytes, every boundary length with all definite length forms); non-trivial = constructed or "
                    "long-form length or multi-octet integer, distinct by encoded bytes")
    # (c)
    tr = os.path.join(d, "impl.ndjson")
    trep = os.path.join(d, "trace-gen.json")
    C.harness("codec-run", ["ber", "trace", tr, ntrace, trep])
    g = C.load(trep)
    chk.report(g, "I->S generation")
    C.validate_records(chk, "TraceBer", "TraceBer.cfg", tr, os.path.join(d, "tracebber.out"), classify,
                       "I->S: TraceBer rejected records produced by lber")
    chk.rule.append("I->S: seeded random trees (depth<=3, payload lengths around 127/128, 255/256, 65535/65536) and i64 values "
                    "(uniform, small, +-2^k+-2, extremes) encoded+parsed by lber, recomputed by TLC")

    def corrupt(r):
        if r.get("m") == "tree" and len(r["bytes"]) > 3:
            r = dict(r)
            b = list(r["bytes"])
            b[-1] = (b[-1] + 1) % 256
            r["bytes"] = b
            return r
        return None
    C.selftest_record(chk, "TraceBer", "TraceBer.cfg", tr, corrupt, "flip-last-byte")
    os.remove(tr)
    chk.assumptions += ["TLC and the CommunityModules Json reader are correct",
                        "spec/Ber.tla transcribes X.690 definite-length BER with low tag numbers correctly (cross-checked by its own round-trip laws)",
                        "the harness maps JSON trees to lber StructureTag field by field"]
    return chk.finish()


def replay(path):
    r = C.load(path)
    print("replay of %s: class %s; re-running the quick check" % (path, r.get("key")))
    return run("quick")
