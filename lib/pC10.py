"""C10 - search streams deliver the server's items in order and obey the state machine.
Owner of the stream-protocol observables of the SearchStream lane (see streamlane.py): items returned by next() in server
order filtered by the adapter chain, each exactly once; state() after every call (Active -> Done -> Closed, Error after any
failure); next() outside Active is Ok(None) without effect; finish() = the server's final result with its controls iff the
stream was read to the end, rc 88 otherwise, rc 80 the second time (on all five chains); Ldap::search() returns the entries
in order, merges reference URIs into the result's referral list and drops intermediate messages.  Class keys `c10:...`."""
import streamlane


def run(tier):
    return streamlane.run("C10", tier)


def replay(path):
    return streamlane.replay("C10", path)
