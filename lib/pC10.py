"""C10 - search streams deliver the server's items in order and obey the state machine.
Owner of the stream-protocol observables of the SearchStream lane (see streamlane.py): items returned by next() in server
order filtered by the adapter chain, each exactly once; state() after every call (Active -> Done -> Closed, Error after any
failure); next() outside Active is Ok(None) without effect; finish() = the server's final result with its controls iff the
stream was read to the end, rc 88 otherwise, rc 80 the second time (on all five chains); Ldap::search() returns the entries
in order, merges reference URIs into the result's referral list and drops intermediate messages.  Class keys `c10:...`."""
import streamlane
import connlane as L

CONN_PROFILES = {"quick": [("timeouts", 150), ("plain", 80), ("aderr", 100)], "thorough": [("timeouts", 2500), ("plain", 1000), ("mixed", 1500), ("aderr", 1500)]}
CONN_RULE = ("connection lane: the same seeded concurrent scenarios as C01/C12 (timed and untimed streams, direct and EntriesOnly, "
             "early finish, extra next() calls after the end / after a timeout / after a failure); C10 owns the state() reported "
             "after every stream call, next() outside Active (must be an immediate Ok(None)), finish codes, and panics inside stream calls")


def conn_extra(tier):
    def f(chk):
        L.lane_into(chk, "C10", [], CONN_PROFILES[tier], CONN_RULE, [])
    return f


def run(tier):
    return streamlane.run("C10", tier, extra=conn_extra(tier))


def replay(path):
    return streamlane.replay("C10", path)
