"""C15 - SearchEntry::construct keeps every attribute value and classifies it correctly.
 (a) TLC checks the laws of C15 on spec/Entry.tla over a bounded space of entries (MCEntry): every attribute in exactly
     one of text/binary, text iff all values are well-formed UTF-8 (Unicode table 3-7, cross-checked against the
     definition D92), multiset of values preserved, the BER bytes decode back to the entry;
 (b) every state of that run is printed as a vector (entry, BER bytes computed by the spec, expected maps) and replayed
     into lber::parse_tag + SearchEntry::construct (S -> I); the vectors are streamed, never stored;
 (c) seeded random entries (more attributes/values, random and near-miss bytes, long values) are run through the real
     code and TLC recomputes Construct for each record (TraceEntry, I -> S)."""
import json, os, re, shutil, subprocess, time
import common as C

#             cfg                      trace records  tlc timeout
CFG = {"quick": ("MCEntry_quick.cfg", 2000, 600), "thorough": ("MCEntry_thorough.cfg", 40000, 3000)}

_STATS = re.compile(r"(\d+) states generated, (\d+) distinct states found, (\d+) states left on queue")


def tlc_streamed(module, cfg, log, sink, workers=8, timeout=600):
    """Like common.tlc, but TLC's `<<"VEC", ...>>` lines are piped straight into the harness command `sink`
    (10^6 vectors are ~0.7 GB of text) and only the other lines are kept in `log`.
    Returns (result dict as common.tlc, harness exit code, harness output)."""
    meta = log + ".meta"
    shutil.rmtree(meta, ignore_errors=True)
    e = dict(os.environ)
    e["JAVA_TOOL_OPTIONS"] = "-Xss1g"
    cmd = ["timeout", str(timeout), "tlc", "-workers", str(workers), "-metadir", meta, "-cleanup", "-noGenerateSpecTE",
           "-config", os.path.join(C.SPEC, cfg), os.path.join(C.SPEC, module + ".tla")]
    he = dict(os.environ)
    he["VERIF_SEED"] = str(C.seed())
    t0 = time.time()
    ph = subprocess.Popen(sink, stdin=subprocess.PIPE, stdout=subprocess.PIPE, stderr=subprocess.STDOUT, env=he)
    pt = subprocess.Popen(cmd, cwd=C.SPEC, env=e, stdout=subprocess.PIPE, stderr=subprocess.STDOUT)
    broken = False
    with open(log, "wb") as lf:
        for line in pt.stdout:
            if line.startswith(b'<<"VEC", '):
                if not broken:
                    try:
                        ph.stdin.write(line)
                    except BrokenPipeError:
                        broken = True
            else:
                lf.write(line)
    rc = pt.wait()
    try:
        ph.stdin.close()
    except BrokenPipeError:
        pass
    hout = ph.stdout.read().decode(errors="replace")
    hrc = ph.wait()
    wall = time.time() - t0
    shutil.rmtree(meta, ignore_errors=True)
    res = dict(ok=False, generated=0, distinct=0, depth=0, violated=None, error=None, wall=wall, rc=rc, out=log)
    if rc == 124:
        res["error"] = "timeout after %ss" % timeout
        return res, hrc, hout
    tail = []
    with open(log, errors="replace") as f:
        for line in f:
            m = _STATS.search(line)
            if m:
                res["generated"], res["distinct"] = int(m.group(1)), int(m.group(2))
            m = re.match(r"The depth of the complete state graph search is (\d+)", line)
            if m:
                res["depth"] = int(m.group(1))
            m = re.match(r"Error: Invariant (\S+) is violated", line)
            if m:
                res["violated"] = m.group(1)
            if line.startswith("Error:") and res["error"] is None:
                res["error"] = line.strip()
            tail.append(line)
            if len(tail) > 60:
                tail.pop(0)
    res["tail"] = "".join(tail)
    res["ok"] = (rc == 0 and res["error"] is None)
    return res, hrc, hout


# ---- class keys for records the trace spec rejected (same vocabulary as entry-run's replay comparison).
# Python's strict UTF-8 decoder is used here only to *name* the kind of attribute; the verdict is TLC's.
def _wf(b):
    try:
        bytes(b).decode("utf-8")
        return True
    except UnicodeDecodeError:
        return False


def _kind(vals):
    if not vals:
        return "empty"
    w = [_wf(v) for v in vals]
    return "text" if all(w) else ("binary" if not any(w) else "mixed")


def _bagdiff(exp, got):
    def bag(vs):
        m = {}
        for v in vs:
            m[bytes(v)] = m.get(bytes(v), 0) + 1
        return m
    e, g = bag(exp), bag(got)
    if any(k not in e for k in g):
        return "value-altered"
    if any(g.get(k, 0) < n for k, n in e.items()):
        return "value-lost"
    if any(g.get(k, 0) > n for k, n in e.items()):
        return "value-duplicated"
    return None


def classify(r):
    o = r["out"]
    if not o["ok"]:
        return "construct:panic"
    if o["dn"] != r["dn"]:
        return "dn:differs"
    text = {bytes(a["t"]): a["vals"] for a in o["text"]}
    binm = {bytes(a["t"]): a["vals"] for a in o["bin"]}
    for a in r["attrs"]:
        t, k = bytes(a["t"]), _kind(a["vals"])
        it, ib = t in text, t in binm
        if not it and not ib:
            return k + ":missing"
        if it and ib:
            return k + ":in-both-maps"
        if it != (k in ("empty", "text")):
            return k + ":wrong-map"
        got = text[t] if it else binm[t]
        d = _bagdiff(a["vals"], got)
        if d:
            return k + ":" + d
        if it and got != a["vals"]:
            return k + ":order"
    have = {bytes(a["t"]) for a in r["attrs"]}
    if any(t not in have for t in list(text) + list(binm)):
        return "extra-attribute"
    return "unclassified-difference"


def run(tier):
    chk = C.Check("C15", "model_checking", tier)
    C.build_harness()
    cfg, ntrace, tmo = CFG[tier]
    d = chk.dir
    # TLC unpacks its standard modules into java.io.tmpdir (one tlc-* directory per run, never removed):
    # keep that under run/ instead of /tmp; _JAVA_OPTIONS is inherited by every TLC this check starts
    jtmp = os.path.join(d, "jtmp")
    os.makedirs(jtmp, exist_ok=True)
    os.environ["_JAVA_OPTIONS"] = "-Djava.io.tmpdir=" + jtmp
    # (a)+(b): model check the laws, stream every state into the real code
    log = os.path.join(d, "mcentry.log")
    rep_path = os.path.join(d, "replay.json")
    res, hrc, hout = tlc_streamed("MCEntry", cfg, log, [os.path.join(C.BIN, "entry-run"), "replay", "-", rep_path],
                                  workers=8, timeout=tmo)
    chk.model("MCEntry/" + cfg, res)
    if hrc != 0 or not os.path.exists(rep_path):
        raise C.ToolError("entry-run replay exited %d: %s" % (hrc, hout[-2000:]))
    rep = C.load(rep_path)
    if rep["counters"].get("vectors", 0) != res["distinct"]:
        chk.tool_error("vector count %s differs from TLC's distinct states %s" % (rep["counters"].get("vectors"), res["distinct"]))
    for need in ("attrs_empty", "attrs_text", "attrs_binary", "attrs_mixed", "entries_with_2_attrs", "mode_utf8", "dn_empty", "dn_non_ascii"):
        if rep["counters"].get(need, 0) == 0:
            chk.tool_error("vacuity: the MCEntry run produced no '%s' case" % need)
    chk.report(rep, "S->I replay of MCEntry vectors into lber::parse_tag + SearchEntry::construct")
    chk.exhaustive = True
    chk.rule.append("S->I: one vector per state of MCEntry = every entry with <= 2 attributes (distinct descriptions) whose value "
                    "lists have <= 3 values drawn from pools of well-formed (ASCII, 2-, 3-, 4-byte, empty) and ill-formed (lone "
                    "continuation, overlong C0 80, surrogate ED A0 80, truncated E2 82, FF, F4 90 80 80) strings, empty value lists, "
                    "3 DNs (ASCII, empty, non-ASCII) and 3 description sequences on the small entries, plus every single value of "
                    "<= 4 bytes over the boundary bytes of Unicode table 3-7; the BER bytes are the spec's Ber!Enc; compared: dn, text "
                    "map in order, binary map as multisets, exactly one map per attribute. Non-trivial = some attribute has >= 2 values "
                    "or lands in the binary map; distinct by BER bytes. Entries that repeat an attribute description are outside the "
                    "property (one HashMap key cannot hold two attributes, RFC 4512 forbids them) and are not generated")
    # (c): implementation traces validated by TLC
    tr = os.path.join(d, "impl.ndjson")
    trep = os.path.join(d, "trace-gen.json")
    C.harness("entry-run", ["trace", tr, ntrace, trep])
    g = C.load(trep)
    chk.report(g, "I->S generation")
    tout = os.path.join(d, "traceentry.out")
    C.validate_records(chk, "TraceEntry", "TraceEntry.cfg", tr, tout, classify,
                       "I->S: TraceEntry rejected records produced by SearchEntry::construct", timeout=tmo)
    badenc = list(C.tagged_lines(tout, "BADENC")) if os.path.exists(tout) else []
    if badenc:
        chk.tool_error("harness fault: %d trace records whose BER bytes are not the spec's encoding of the entry (first: record %s)"
                       % (len(badenc), badenc[0]))
    chk.rule.append("I->S: seeded random entries with 0-8 attributes x 0-9 values (random scalar values incl. every table 3-7 "
                    "border, random bytes, known ill-formed sequences spliced into text, truncated characters, one flipped byte, "
                    "repeated values, values of 120..3000 bytes and one beyond 65535 bytes every 400 records), encoded by the harness's "
                    "own BER writer, parsed by lber, constructed; TLC recomputes Entry!Construct per record (attributes as a set, text "
                    "values in order, binary values as a bag) and checks the bytes against Entry!EntryBytes; ~4% of the records are "
                    "deliberately outside the property (non-UTF-8 dn or description, repeated description) and accepted either way")

    def drop_bin_value(r):
        o = r["out"]
        if r.get("scope") == "in" and o["ok"] and o["bin"] and len(o["bin"][0]["vals"]) >= 2:
            r = json.loads(json.dumps(r))
            r["out"]["bin"][0]["vals"].pop()
            return r
        return None

    def swap_text_values(r):
        o = r["out"]
        if r.get("scope") == "in" and o["ok"]:
            for i, a in enumerate(o["text"]):
                if len(a["vals"]) >= 2 and a["vals"][0] != a["vals"][1] and len(json.dumps(r)) < 20000:
                    r = json.loads(json.dumps(r))
                    v = r["out"]["text"][i]["vals"]
                    v[0], v[1] = v[1], v[0]
                    return r
        return None

    def move_to_both(r):
        o = r["out"]
        if r.get("scope") == "in" and o["ok"] and o["bin"] and len(json.dumps(r)) < 20000:
            r = json.loads(json.dumps(r))
            a = r["out"]["bin"][0]
            r["out"]["text"].append({"t": a["t"], "vals": []})
            return r
        return None
    C.selftest_record(chk, "TraceEntry", "TraceEntry.cfg", tr, drop_bin_value, "drop-binary-value")
    C.selftest_record(chk, "TraceEntry", "TraceEntry.cfg", tr, swap_text_values, "swap-text-values")
    C.selftest_record(chk, "TraceEntry", "TraceEntry.cfg", tr, move_to_both, "attribute-in-both-maps")
    os.remove(tr)
    shutil.rmtree(jtmp, ignore_errors=True)
    chk.assumptions += ["TLC and the CommunityModules Json reader/writer are correct",
                        "spec/Entry.tla transcribes Unicode table 3-7 correctly (cross-checked inside the model against the "
                        "definition D92/table 3-6 on every string of <= 4 boundary bytes, and by known answers)",
                        "spec/Ber.tla encodes definite-length BER correctly (C07 checks it; MCEntry decodes every vector back)",
                        "'well-formed search entry' = dn is UTF-8, attribute descriptions follow RFC 4512 2.5 and are pairwise "
                        "distinct ignoring case; other entries are outside C15",
                        "lber::parse_tag yields the structure the bytes denote (property C07); a parse failure would be reported here as ber:*"]
    return chk.finish()


def replay(path):
    r = C.load(path)
    print("replay of %s: class %s (%s); re-running the %s check" % (path, r.get("key"), r.get("source"), r.get("tier", "quick")))
    case = r.get("case", {})
    for c in (case.get("cases") or [])[:1]:
        print("  first failing case: %s" % json.dumps(c)[:1200])
    return run(r.get("tier", "quick"))
