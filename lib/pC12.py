"""C12 - timeouts fire on time, keep the connection usable and orphan the late reply."""
import connlane as L

MC = {"quick": [("mc-time", "MCLdapConn", "MCConn_c12_quick.cfg", 600, 8),
                ("mc-stall", "MCLdapConn", "MCConn_c12_stall.cfg", 600, 8),
                ("mc-timed-return", "MCLdapConn", "MCConn_c12_live.cfg", 600, 6)],
      "thorough": [("mc-time", "MCLdapConn", "MCConn_c12_thorough.cfg", 3000, 12),
                   ("mc-stall", "MCLdapConn", "MCConn_c12_stall_thorough.cfg", 3000, 12),
                   ("mc-timed-return", "MCLdapConn", "MCConn_c12_live.cfg", 600, 8)]}
PROFILES = {"quick": [("timeouts", 250), ("burst", 150), ("stall", 250)],
            "thorough": [("timeouts", 4000), ("burst", 2000), ("mixed", 2000), ("stall", 4000)]}
SCRIPTS = {"quick": ("GenConn_stall4.cfg", 8), "thorough": [("GenConn_len5.cfg", 10), ("GenConn_stall5.cfg", 20)]}
RULE = ("model: liveness TimedReturn (a timed wait always ends, also while the driver is blocked inside a send; weak fairness of the "
        "callers, timers abstract); explicit clock; TimeoutExact (nobody waits past its deadline, a timer fires only at its deadline), the timer of a "
        "search restarts with every received item, timeouts do not change the driver; implementation: paused Tokio clock advanced "
        "1 ms at a time, timeouts of 1-4 ms, responses before/at/after the deadline, late replies always sent afterwards and later "
        "operations run on the same connection; every return is bound to the virtual time at which it happened; profile 'stall' and "
        "the stall scripts: the peer stops reading (at a request boundary or in the middle of a request) so that the driver blocks "
        "inside a send while timed operations - sent, queued behind it, or the blocked one itself - reach their deadlines")


def extra(chk):
    """Timeouts through the adapter chains (direct, EntriesOnly, PagedResults in every order): the server falls silent at every
    position of scripts of one to three pages; the search was given a timeout; the wait must end with a timeout error (state
    Error, finish() = 88) and everything before it must be as without the silence. TLC: MCStream_c12.cfg (TimeoutLaw)."""
    import os
    import common as C
    import streamlane
    out = os.path.join(chk.dir, "mcstream-c12.out")
    res = C.tlc("MCStream", "MCStream_c12.cfg", out, workers=4, timeout=900, heap="2g")
    chk.model("MCStream/MCStream_c12.cfg", res)
    rp = os.path.join(chk.dir, "stream-replay.json")
    C.harness("stream-run", ["replay", out, rp], timeout=900)
    os.remove(out)
    rep = C.load(rp)
    n_to = rep["counters"].get("impl-error:Timeout", 0)
    mine, rest = streamlane._own_view(rep, "c12:")
    mine["lane"] = "stream-replay (silent server, timeout set)"
    chk.report(mine, "S->I: MCStream_c12 behaviours (a server falling silent under every adapter chain)")
    streamlane._note_rest(chk, rest, "S->I MCStream_c12.cfg")
    chk.extra["stream_timeouts"] = dict(behaviours=rep["evaluations"], timeouts_observed=n_to)
    if res["ok"] and (n_to == 0 or rep["counters"].get("chain:PR", 0) == 0):
        chk.tool_error("vacuity: the stream lane observed no timeout / no paged chain")
    chk.rule.append("stream lane: %d behaviours on the five adapter chains with the server falling silent at every position of one- to "
                    "three-page scripts and a timeout set on the search (TimeoutLaw: the wait ends with a timeout error, and only "
                    "such a wait does); %d timeouts observed" % (rep["evaluations"], n_to))


def extra_sync(chk):
    """The blocking API (LdapConn / EntryStream) runs the same operations on a runtime of its own: a timed operation there must
    end like its asynchronous twin - with the response or the timeout error, not with a panic. The scripts are C14's (TLC:
    MCSync); here only what happens in steps that carry a timeout is judged."""
    import os
    import common as C
    out = os.path.join(chk.dir, "mcsync.out")
    res = C.tlc("MCSync", "MCSync_quick.cfg", out, workers=4, timeout=300, heap="3g")
    chk.model("MCSync/MCSync_quick.cfg", res)
    tr = os.path.join(chk.dir, "sync.ndjson")
    rp = os.path.join(chk.dir, "sync-replay.json")
    C.harness("sync-run", ["replay", out, tr, rp], timeout=900)
    for x in (out, tr):
        if os.path.exists(x):
            os.remove(x)
    rep = C.load(rp)
    kept = {}
    for m in rep.get("mismatches", []):
        kept.setdefault(m["key"], []).append(m["case"])
    mine = {k: n for k, n in rep.get("mismatch_by_key", {}).items() if k.endswith(":under-timeout") or ":timeout" in k}
    for k, n in mine.items():
        chk.problem("sync:" + k, dict(count=n, cases=kept.get(k, [])[:3]), "S->I: MCSync scripts through LdapConn vs Ldap, steps with a timeout")
    rest = {k: n for k, n in rep.get("mismatch_by_key", {}).items() if k not in mine}
    if rest:
        chk.notes.append("blocking API: differences owned by C14 (not this property): %s" % ", ".join("%s x%d" % kv for kv in sorted(rest.items())))
    cnt = rep.get("counters", {})
    chk.evaluations += rep["evaluations"]
    chk.extra["blocking_api_timeouts"] = dict(scripts=rep["evaluations"], timeout_outcomes=cnt.get("outcome:timeout", 0),
                                              stream_timeouts=cnt.get("stream-outcome:timeout", 0))
    if cnt.get("outcome:timeout", 0) == 0 or cnt.get("mod:with_timeout", 0) == 0:
        chk.tool_error("vacuity: no timed step in the blocking-API scripts")
    chk.rule.append("blocking API: every MCSync script run through Ldap and through LdapConn; in steps that carry a timeout a panic of "
                    "one lane or a different timeout outcome is C12's (%d timeout outcomes)" % cnt.get("outcome:timeout", 0))


def extra_all(chk):
    extra(chk)
    extra_sync(chk)


def run(tier):
    return L.run_lane("C12", tier, MC[tier], PROFILES[tier], RULE, scripts=SCRIPTS[tier], selftests=[("timeout-one-tick-longer", L.corrupt_time, "time")], extra=extra_all)


def replay(path):
    return L.replay("C12", path, run)
