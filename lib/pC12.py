"""C12 - timeouts fire on time, keep the connection usable and orphan the late reply."""
import connlane as L

MC = {"quick": [("mc-time", "MCLdapConn", "MCConn_c12_quick.cfg", 600, 8),
                ("mc-stall", "MCLdapConn", "MCConn_c12_stall.cfg", 600, 8),
                ("mc-timed-return", "MCLdapConn", "MCConn_c12_live.cfg", 600, 6)],
      "thorough": [("mc-time", "MCLdapConn", "MCConn_c12_thorough.cfg", 3000, 12),
                   ("mc-stall", "MCLdapConn", "MCConn_c12_stall_thorough.cfg", 3000, 12),
                   ("mc-timed-return", "MCLdapConn", "MCConn_c12_live.cfg", 600, 8)]}
PROFILES = {"quick": [("timeouts", 250), ("burst", 150), ("stall", 250)],
            "thorough": [("timeouts", 4000), ("burst", 2000), ("mixed", 2000), ("stall", 4000)]}
SCRIPTS = {"quick": ("GenConn_stall4.cfg", 8), "thorough": [("GenConn_len5.cfg", 10), ("GenConn_stall5.cfg", 20)]}
RULE = ("model: liveness TimedReturn (a timed wait always ends, also while the driver is blocked inside a send; weak fairness of the "
        "callers, timers abstract); explicit clock; TimeoutExact (nobody waits past its deadline, a timer fires only at its deadline), the timer of a "
        "search restarts with every received item, timeouts do not change the driver; implementation: paused Tokio clock advanced "
        "1 ms at a time, timeouts of 1-4 ms, responses before/at/after the deadline, late replies always sent afterwards and later "
        "operations run on the same connection; every return is bound to the virtual time at which it happened; profile 'stall' and "
        "the stall scripts: the peer stops reading (at a request boundary or in the middle of a request) so that the driver blocks "
        "inside a send while timed operations - sent, queued behind it, or the blocked one itself - reach their deadlines")


def run(tier):
    return L.run_lane("C12", tier, MC[tier], PROFILES[tier], RULE, scripts=SCRIPTS[tier], selftests=[("timeout-one-tick-longer", L.corrupt_time, "time")])


def replay(path):
    return L.replay("C12", path, run)
