"""C12 - timeouts fire on time, keep the connection usable and orphan the late reply."""
import connlane as L

MC = {"quick": [("mc-time", "MCLdapConn", "MCConn_c12_quick.cfg", 600, 8),
                ("mc-stall", "MCLdapConn", "MCConn_c12_stall.cfg", 600, 8),
                ("mc-timed-return", "MCLdapConn", "MCConn_c12_live.cfg", 600, 6)],
      "thorough": [("mc-time", "MCLdapConn", "MCConn_c12_thorough.cfg", 3000, 12),
                   ("mc-stall", "MCLdapConn", "MCConn_c12_stall_thorough.cfg", 3000, 12),
                   ("mc-timed-return", "MCLdapConn", "MCConn_c12_live.cfg", 600, 8)]}
PROFILES = {"quick": [("timeouts", 250), ("burst", 150), ("stall", 250)],
            "thorough": [("timeouts", 4000), ("burst", 2000), ("mixed", 2000), ("stall", 4000)]}
SCRIPTS = {"quick": ("GenConn_stall4.cfg", 8), "thorough": [("GenConn_len5.cfg", 10), ("GenConn_stall5.cfg", 20)]}
RULE = ("model: liveness TimedReturn (a timed wait always ends, also while the driver is blocked inside a send; weak fairness of the "
        "callers, timers abstract); explicit clock; TimeoutExact (nobody waits past its deadline, a timer fires only at its deadline), the timer of a "
        "search restarts with every received item, timeouts do not change the driver; implementation: paused Tokio clock advanced "
        "1 ms at a time, timeouts of 1-4 ms, responses before/at/after the deadline, late replies always sent afterwards and later "
        "operations run on the same connection; every return is bound to the virtual time at which it happened; profile 'stall' and "
        "the stall scripts: the peer stops reading (at a request boundary or in the middle of a request) so that the driver blocks "
        "inside a send while timed operations - sent, queued behind it, or the blocked one itself - reach their deadlines")


def extra(chk):
    """Timeouts through the adapter chains (direct, EntriesOnly, PagedResults in every order): the server falls silent at every
    position of scripts of one to three pages; the search was given a timeout; the wait must end with a timeout error (state
    Error, finish() = 88) and everything before it must be as without the silence. TLC: MCStream_c12.cfg (TimeoutLaw)."""
    import os
    import common as C
    import streamlane
    out = os.path.join(chk.dir, "mcstream-c12.out")
    res = C.tlc("MCStream", "MCStream_c12.cfg", out, workers=4, timeout=900, heap="2g")
    chk.model("MCStream/MCStream_c12.cfg", res)
    rp = os.path.join(chk.dir, "stream-replay.json")
    C.harness("stream-run", ["replay", out, rp], timeout=900)
    os.remove(out)
    rep = C.load(rp)
    n_to = rep["counters"].get("impl-error:Timeout", 0)
    mine, rest = streamlane._own_view(rep, "c12:")
    mine["lane"] = "stream-replay (silent server, timeout set)"
    chk.report(mine, "S->I: MCStream_c12 behaviours (a server falling silent under every adapter chain)")
    streamlane._note_rest(chk, rest, "S->I MCStream_c12.cfg")
    chk.extra["stream_timeouts"] = dict(behaviours=rep["evaluations"], timeouts_observed=n_to)
    if res["ok"] and (n_to == 0 or rep["counters"].get("chain:PR", 0) == 0):
        chk.tool_error("vacuity: the stream lane observed no timeout / no paged chain")
    chk.rule.append("stream lane: %d behaviours on the five adapter chains with the server falling silent at every position of one- to "
                    "three-page scripts and a timeout set on the search (TimeoutLaw: the wait ends with a timeout error, and only "
                    "such a wait does); %d timeouts observed" % (rep["evaluations"], n_to))


def extra_sync(chk):
    """The blocking API (LdapConn / EntryStream) runs the same operations on a runtime of its own: a timed operation there must
    end like its asynchronous twin - with the response or the timeout error, not with a panic. The scripts are C14's (TLC:
    MCSync); here only what happens in steps that carry a timeout is judged."""
    import os
    import common as C
    out = os.path.join(chk.dir, "mcsync.out")
    res = C.tlc("MCSync", "MCSync_quick.cfg", out, workers=4, timeout=300, heap="3g")
    chk.model("MCSync/MCSync_quick.cfg", res)
    tr = os.path.join(chk.dir, "sync.ndjson")
    rp = os.path.join(chk.dir, "sync-replay.json")
    C.harness("sync-run", ["replay", out, tr, rp], timeout=900)
    for x in (out, tr):
        if os.path.exists(x):
            os.remove(x)
    rep = C.load(rp)
    kept = {}
    for m in rep.get("mismatches", []):
        kept.setdefault(m["key"], []).append(m["case"])
    mine = {k: n for k, n in rep.get("mismatch_by_key", {}).items() if k.endswith(":under-timeout") or ":timeout" in k}
    for k, n in mine.items():
        chk.problem("sync:" + k, dict(count=n, cases=kept.get(k, [])[:3]), "S->I: MCSync scripts through LdapConn vs Ldap, steps with a timeout")
    rest = {k: n for k, n in rep.get("mismatch_by_key", {}).items() if k not in mine}
    if rest:
        chk.notes.append("blocking API: differences owned by C14 (not this property): %s" % ", ".join("%s x%d" % kv for kv in sorted(rest.items())))
    cnt = rep.get("counters", {})
    chk.evaluations += rep["evaluations"]
    chk.extra["blocking_api_timeouts"] = dict(scripts=rep["evaluations"], timeout_outcomes=cnt.get("outcome:timeout", 0),
                                              stream_timeouts=cnt.get("stream-outcome:timeout", 0))
    if cnt.get("outcome:timeout", 0) == 0 or cnt.get("mod:with_timeout", 0) == 0:
        chk.tool_error("vacuity: no timed step in the blocking-API scripts")
    chk.rule.append("blocking API: every MCSync script run through Ldap and through LdapConn; in steps that carry a timeout a panic of "
                    "one lane or a different timeout outcome is C12's (%d timeout outcomes)" % cnt.get("outcome:timeout", 0))


DEEPQ = {"quick": "70,130", "thorough": "33,65,70,129,130"}


def extra_deepq(chk):
    """A timeout covers the whole operation, also the part before the driver has taken the request: the peer stops reading, one
    request blocks the driver in its write, 70 / 130 untimed operations queue up behind it (more than any plausible bound of
    an internal queue), then an operation with a timeout of two ticks is started and three ticks pass. In the model the
    request queue is unbounded and Start is one step, so the clock cannot pass the deadline while the caller waits (`time`);
    the trace is validated by TraceLdapConn with 140 operation slots."""
    import os, json
    import common as C
    tr = os.path.join(chk.dir, "deepq.ndjson")
    rp = os.path.join(chk.dir, "deepq.json")
    C.harness("conn-run", ["deepq", tr, DEEPQ[chk.tier], rp])
    rep = C.load(rp)
    chk.report(rep, "deep request queue")
    nsc = len(DEEPQ[chk.tier].split(","))
    if rep["counters"].get("deepq_scripts_followed", 0) != nsc:
        chk.tool_error("the deep-queue scripts were not followed to the end")
    nev, diags, res = L.validate(chk, tr, cfg="TraceLdapConn.deep.cfg")
    chk.traces += rep["evaluations"]
    events = [json.loads(l) for l in open(tr)]
    got = sum(1 for e in events if e["ev"] == "Ret" and e.get("r") == "timeout")
    if got < nsc and not diags:
        chk.tool_error("deep queue: %d of %d timed operations ended in the timeout error and the model did not object" % (got, nsc))
    owned = {}
    for idx, tag in diags:
        own = L.owner_of(tag, events, idx)
        if own == "C12" or (isinstance(own, tuple) and "C12" in own):
            owned.setdefault(tag, []).append(idx)
        else:
            chk.notes.append("deep queue: difference owned by %s: %s at event %d" % (L._own_str(own), tag, idx))
    chk.extra.setdefault("trace_validation", []).append(dict(profile="deepq", scenarios=nsc, events=nev, depths=DEEPQ[chk.tier],
                                                             diag_owned={k: len(v) for k, v in owned.items()}))
    for tag, idxs in owned.items():
        sd, k, j0 = L.scenario_of(events, idxs[0])
        chk.problem("deepq:" + tag, dict(count=len(idxs), event=events[idxs[0] - 1], before=events[max(j0, idxs[0] - 6):idxs[0] - 1]),
                    "I->S: TraceLdapConn on the deep-queue scenario")
    chk.rule.append("deep queue: %s untimed operations queued behind a write the peer does not take, then one operation with a "
                    "timeout of two ticks, three ticks, the peer reads again; validated by TraceLdapConn (140 slots)" % DEEPQ[chk.tier])
    os.remove(tr)


def extra_all(chk):
    extra(chk)
    extra_sync(chk)
    extra_deepq(chk)


def run(tier):
    return L.run_lane("C12", tier, MC[tier], PROFILES[tier], RULE, scripts=SCRIPTS[tier], selftests=[("timeout-one-tick-longer", L.corrupt_time, "time")], extra=extra_all)


def replay(path):
    return L.replay("C12", path, run)
