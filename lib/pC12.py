"""C12 - timeouts fire on time, keep the connection usable and orphan the late reply."""
import connlane as L

MC = {"quick": [("mc-time", "MCLdapConn", "MCConn_c12_quick.cfg", 600, 8),
                ("mc-stall", "MCLdapConn", "MCConn_c12_stall.cfg", 600, 8),
                ("mc-timed-return", "MCLdapConn", "MCConn_c12_live.cfg", 600, 6)],
      "thorough": [("mc-time", "MCLdapConn", "MCConn_c12_thorough.cfg", 3000, 12),
                   ("mc-stall", "MCLdapConn", "MCConn_c12_stall_thorough.cfg", 3000, 12),
                   ("mc-timed-return", "MCLdapConn", "MCConn_c12_live.cfg", 600, 8)]}
PROFILES = {"quick": [("timeouts", 250), ("burst", 150), ("stall", 250)],
            "thorough": [("timeouts", 4000), ("burst", 2000), ("mixed", 2000), ("stall", 4000)]}
SCRIPTS = {"quick": ("GenConn_stall4.cfg", 8), "thorough": [("GenConn_len5.cfg", 10), ("GenConn_stall5.cfg", 20)]}
RULE = ("model: liveness TimedReturn (a timed wait always ends, also while the driver is blocked inside a send; weak fairness of the "
        "callers, timers abstract); explicit clock; TimeoutExact (nobody waits past its deadline, a timer fires only at its deadline), the timer of a "
        "search restarts with every received item, timeouts do not change the driver; implementation: paused Tokio clock advanced "
        "1 ms at a time, timeouts of 1-4 ms, responses before/at/after the deadline, late replies always sent afterwards and later "
        "operations run on the same connection; every return is bound to the virtual time at which it happened; profile 'stall' and "
        "the stall scripts: the peer stops reading (at a request boundary or in the middle of a request) so that the driver blocks "
        "inside a send while timed operations - sent, queued behind it, or the blocked one itself - reach their deadlines")


def extra(chk):
    """Timeouts through the adapter chains (direct, EntriesOnly, PagedResults in every order): the server falls silent at every
    position of scripts of one to three pages; the search was given a timeout; the wait must end with a timeout error (state
    Error, finish() = 88) and everything before it must be as without the silence. TLC: MCStream_c12.cfg (TimeoutLaw)."""
    import os
    import common as C
    import streamlane
    out = os.path.join(chk.dir, "mcstream-c12.out")
    res = C.tlc("MCStream", "MCStream_c12.cfg", out, workers=4, timeout=900, heap="2g")
    chk.model("MCStream/MCStream_c12.cfg", res)
    rp = os.path.join(chk.dir, "stream-replay.json")
    C.harness("stream-run", ["replay", out, rp], timeout=900)
    os.remove(out)
    rep = C.load(rp)
    n_to = rep["counters"].get("impl-error:Timeout", 0)
    mine, rest = streamlane._own_view(rep, "c12:")
    mine["lane"] = "stream-replay (silent server, timeout set)"
    chk.report(mine, "S->I: MCStream_c12 behaviours (a server falling silent under every adapter chain)")
    streamlane._note_rest(chk, rest, "S->I MCStream_c12.cfg")
    chk.extra["stream_timeouts"] = dict(behaviours=rep["evaluations"], timeouts_observed=n_to)
    if res["ok"] and (n_to == 0 or rep["counters"].get("chain:PR", 0) == 0):
        chk.tool_error("vacuity: the stream lane observed no timeout / no paged chain")
    chk.rule.append("stream lane: %d behaviours on the five adapter chains with the server falling silent at every position of one- to "
                    "three-page scripts and a timeout set on the search (TimeoutLaw: the wait ends with a timeout error, and only "
                    "such a wait does); %d timeouts observed" % (rep["evaluations"], n_to))


def run(tier):
    return L.run_lane("C12", tier, MC[tier], PROFILES[tier], RULE, scripts=SCRIPTS[tier], selftests=[("timeout-one-tick-longer", L.corrupt_time, "time")], extra=extra)


def replay(path):
    return L.replay("C12", path, run)
