"""C12 - timeouts fire on time, keep the connection usable and orphan the late reply."""
import connlane as L

MC = {"quick": [("mc-time", "MCLdapConn", "MCConn_c12_quick.cfg", 600, 8)],
      "thorough": [("mc-time", "MCLdapConn", "MCConn_c12_thorough.cfg", 3000, 12)]}
PROFILES = {"quick": [("timeouts", 250), ("burst", 150)],
            "thorough": [("timeouts", 4000), ("burst", 2000), ("mixed", 2000)]}
SCRIPTS = {"quick": ("GenConn_len4.cfg", 8), "thorough": ("GenConn_len5.cfg", 10)}
RULE = ("model: explicit clock; TimeoutExact (nobody waits past its deadline, a timer fires only at its deadline), the timer of a "
        "search restarts with every received item, timeouts do not change the driver; implementation: paused Tokio clock advanced "
        "1 ms at a time, timeouts of 1-4 ms, responses before/at/after the deadline, late replies always sent afterwards and later "
        "operations run on the same connection; every return is bound to the virtual time at which it happened")


def run(tier):
    return L.run_lane("C12", tier, MC[tier], PROFILES[tier], RULE, scripts=SCRIPTS[tier], selftests=[("timeout-one-tick-longer", L.corrupt_time, "time")])


def replay(path):
    return L.replay("C12", path, run)
