"""C08 - filter strings compile to the RFC 4511 filter they denote.
 (a) TLC checks the laws of spec/Filter4515.tla (decode inverts encode, print parses back to the same tree, printing the
     decoded bytes reproduces the input up to escaping, parse inverts render, accepted strings are in no must-reject
     class) on every string of several alphabets up to a length bound and on every (syntax tree, escaping plan) of a
     pool (MCFilter);
 (b) S -> I: the accepted strings (with the bytes the spec computes from the string alone) and the rendered trees are
     replayed into ldap3::parse_filter + lber; the harness enumerates the same string spaces itself and requires the
     same accept set, identical bytes, and an Err (never a panic) for everything else. Strings that the implementation
     accepts although the spec did not emit them are adjudicated by TraceFilter (must-reject class / harmless);
 (c) I -> S: seeded random byte strings and mutations of valid filters with the implementation's verdict and bytes are
     recomputed by TLC (TraceFilter)."""
import json, os
import common as C

CFG = {"quick": ("MCFilter_quick.cfg", 3600, 600, 8), "thorough": ("MCFilter_thorough.cfg", 60000, 3000, 12)}
COMPOSITE = ("and", "or", "not")


def _unquote(payload):
    """payload of a <<"TAG", "json">> line -> object"""
    s = payload.strip()
    if s.startswith('"') and s.endswith('"'):
        s = s[1:-1]
    out, i = [], 0
    while i < len(s):
        c = s[i]
        if c == "\\" and i + 1 < len(s):
            n = s[i + 1]
            out.append({"n": "\n", "t": "\t"}.get(n, n))
            i += 2
        else:
            out.append(c)
            i += 1
    return json.loads("".join(out))


def show(b):
    return "".join(chr(c) if 0x20 <= c < 0x7f and c != 0x22 else "<%02x>" % c for c in b)


def keys_for(bad, replay_keys=()):
    """bad: list of (record, why) -> list of (key, record). Attribution rule (same idea as harness/src/bin/filter-run.rs):
    a failing composite is attributed to an item kind that also fails on its own. The exhaustive replay is the better
    witness of which item kinds fail on their own, so its keys (replay_keys) are taken into account."""
    plain = set()
    for k in replay_keys:
        what, _, kind = k.partition(":")
        plain.add((what, kind))
    escaped_reported = {k.partition(":")[0] for k in replay_keys if k.endswith(":escaped-value")}
    def is_plain(top, kinds):
        return len(kinds) == 1 and (top not in COMPOSITE or kinds[0] == top + "-empty")

    def generalise(what, k):        # "ext:mrule-prefix-dn" is a sub-kind of "ext"
        base = k.split(":")[0]
        return base if base != k and (what, base) in plain else k

    feats = []
    for r, w in bad:
        what, top, kinds = w["what"], w["top"], sorted(w.get("k", []))
        esc = 0x5c in r["s"]
        feats.append((what, top, kinds, esc))
        if what != "accepts-invalid" and is_plain(top, kinds) and not esc:
            plain.add((what, kinds[0]))
    out = []
    for (r, w), (what, top, kinds, esc) in zip(bad, feats):
        if what == "accepts-invalid":
            key = "accepts-invalid:%s" % top          # top = the spec's reason for rejecting
        else:
            inp = [k for k in kinds if (what, k) in plain]
            if inp:
                key = "%s:%s" % (what, generalise(what, inp[0]))
            elif esc and what in escaped_reported:
                key = "%s:escaped-value" % what
            elif len(kinds) == 1:
                key = "%s:%s" % (what, kinds[0])
            else:
                key = "%s:nested:%s" % (what, top)
        out.append((key, r))
    return out


def validate(chk, trace_path, out, source, count_as_traces=True, timeout=900, replay_keys=()):
    """TraceFilter over an ndjson file; BADREC/BADWHY lines become problems with class keys. Returns #records."""
    nrec = sum(1 for _ in open(trace_path))
    res = C.tlc("TraceFilter", "TraceFilter.cfg", out, workers=1, env={"TRACE": trace_path}, timeout=timeout)
    bad = sorted(int(x.strip()) for x in C.tagged_lines(out, "BADREC"))
    why = {}
    for p in C.tagged_lines(out, "BADWHY"):
        w = _unquote(p)
        why[int(w["l"])] = w
    if not res["ok"] or res["depth"] != nrec + 1 or set(why) != set(bad):
        chk.tool_error("TraceFilter did not consume %s (depth %s of %s records, %d BADREC / %d BADWHY): %s\n%s"
                       % (os.path.basename(trace_path), res["depth"], nrec, len(bad), len(why), res["error"], res.get("tail", "")[-1200:]))
        return nrec
    if count_as_traces:
        chk.traces += nrec
    chk.extra.setdefault("trace_validation", []).append(
        dict(module="TraceFilter", file=os.path.basename(trace_path), records=nrec, rejected=len(bad), wall_s=round(res["wall"], 1)))
    if bad:
        want = set(bad)
        recs = []
        with open(trace_path) as f:
            for i, line in enumerate(f, 1):
                if i in want:
                    recs.append((json.loads(line), why[i]))
        by = {}
        for key, r in keys_for(recs, replay_keys):
            by.setdefault(key, []).append(r)
        for key, rs in sorted(by.items()):
            cases = [dict(filter=show(r["s"]), s=bytes(r["s"]).hex(), ok=r["ok"], got=bytes(r["ber"]).hex(), gen=r.get("gen")) for r in rs[:3]]
            chk.problem(key, dict(count=len(rs), cases=[C.shrink(c) for c in cases]), source)
    return nrec


def selftest(chk):
    """Binding self-test: corrupted implementation records must be rejected by TraceFilter, a correct one accepted."""
    good = {"s": [40, 97, 61, 118, 42, 41], "ok": True, "ber": [164, 8, 4, 1, 97, 48, 3, 128, 1, 118], "gen": "selftest"}   # (a=v*)
    flipped = dict(good, ber=good["ber"][:-3] + [129, 1, 118])      # initial tagged as any
    refused = dict(good, ok=False, ber=[])                          # a valid filter reported as rejected
    lenient = {"s": [40, 61, 118, 41], "ok": True, "ber": [163, 5, 4, 0, 4, 1, 118], "gen": "selftest"}   # (=v) accepted
    p = os.path.join(chk.dir, "selftest.ndjson")
    with open(p, "w") as f:
        for r in (good, flipped, refused, lenient):
            f.write(json.dumps(r) + "\n")
    out = os.path.join(chk.dir, "selftest.out")
    res = C.tlc("TraceFilter", "TraceFilter.cfg", out, workers=1, env={"TRACE": p}, timeout=120)
    bad = sorted(int(x.strip()) for x in C.tagged_lines(out, "BADREC"))
    whys = [_unquote(x)["what"] + ":" + _unquote(x)["top"] for x in C.tagged_lines(out, "BADWHY")]
    ok = res["ok"] and bad == [2, 3, 4] and whys == ["bytes-differ:sub", "rejects-valid:sub", "accepts-invalid:empty-attribute"]
    chk.extra.setdefault("binding_selftest", []).append(
        dict(name="good-record-accepted+3-corrupted-records-rejected", corrupted_record_rejected=ok, rejected=bad, classes=whys))
    if not ok:
        chk.tool_error("selftest: TraceFilter rejected %s with %s (expected records 2,3,4)" % (bad, whys))


def run(tier):
    chk = C.Check("C08", "model_checking", tier)
    C.build_harness()
    cfg, ntrace, tmo, workers = CFG[tier]
    d = chk.dir
    # (a) + (b)
    out = os.path.join(d, "mcfilter.out")
    res = C.tlc("MCFilter", cfg, out, workers=workers, timeout=tmo)
    chk.model("MCFilter/" + cfg, res)
    if not res["ok"]:
        for p in C.tagged_lines(out, "LAW-FAILED"):
            chk.notes.append("law failed on the model: " + p[:300])
    rep_path = os.path.join(d, "replay.json")
    extra = os.path.join(d, "accepted-not-emitted.ndjson")
    C.harness("filter-run", ["replay", out, rep_path, extra], timeout=tmo)
    rep = C.load(rep_path)
    os.remove(out)
    cnt = rep["counters"]
    model_states = cnt.get("strings-enumerated", 0) + cnt.get("ast-vectors", 0) + cnt.get("seed-states", 0)
    if res["ok"] and model_states != res["distinct"]:
        chk.tool_error("harness saw %d states (strings it enumerated + tree vectors + seeds) but TLC found %d distinct states"
                       % (model_states, res["distinct"]))
    chk.report(rep, "S->I replay of MCFilter vectors into parse_filter")
    chk.exhaustive = True
    chk.rule.append("S->I: every byte string over each listed alphabet up to its length bound (see notes) is classified by the "
                    "spec; the harness enumerates the same strings and requires the same accept set and bytes; plus every "
                    "(syntax tree, escaping plan) of MCFilter's pools rendered with and (for items) without outer parentheses. "
                    "non-trivial = a string the spec accepts (its BER bytes are compared), distinct by string; rejected strings "
                    "count as evaluations only")
    rkeys = sorted(rep.get("mismatch_by_key", {}))
    nextra = cnt.get("accepted-but-not-emitted", 0)
    if nextra:
        chk.notes.append("%d string(s) accepted by the implementation were not emitted by the spec; adjudicated by TraceFilter" % nextra)
        validate(chk, extra, os.path.join(d, "adjudicate.out"),
                 "S->I: strings of the enumerated spaces that parse_filter accepts and the spec rejects", count_as_traces=False,
                 replay_keys=rkeys)
    # (c)
    tr = os.path.join(d, "impl.ndjson")
    trep = os.path.join(d, "trace-gen.json")
    C.harness("filter-run", ["trace", tr, ntrace, trep])
    g = C.load(trep)
    chk.report(g, "I->S generation")
    validate(chk, tr, os.path.join(d, "tracefilter.out"), "I->S: TraceFilter rejected records produced by parse_filter", timeout=tmo, replay_keys=rkeys)
    chk.rule.append("I->S: seeded random byte strings, random strings over a filter alphabet, random valid filters (depth<=3, "
                    "random escaping, UTF-8) and their mutations (drop/duplicate parenthesis, append text, truncate escape, inject "
                    "special, empty attribute, double asterisk, non-ASCII/ill-formed UTF-8, NUL, uppercase :DN, whitespace, bad "
                    "attribute descriptions, values longer than 127 bytes, nesting up to 70), verdict and bytes recomputed by TLC")
    selftest(chk)
    os.remove(tr)
    chk.assumptions += ["TLC and the CommunityModules Json reader are correct",
                        "spec/Filter4515.tla transcribes RFC 4515 / RFC 4512 oid+options / RFC 4511 Filter correctly (cross-checked by its "
                        "own laws: an independent validating BER filter reader and printer invert the parser and encoder)",
                        "spec/Ber.tla (C07) gives the definite-length encoding",
                        "grammar decisions D1-D4 and extensions E1-E2 at the head of Filter4515.tla are the intended reading"]
    return chk.finish()


def replay(path):
    """Re-run the concrete cases of a violation file against the current tree: the implementation's verdict on each
    stored string is recomputed by the harness and judged by TraceFilter. Exit 1 if a case still violates C08."""
    r = C.load(path)
    print("replay of %s: class %s (%s)" % (path, r.get("key"), r.get("source")))
    case = r.get("case", {})
    hexes = [c["s"] for c in case.get("cases", []) if isinstance(c, dict) and isinstance(c.get("s"), str)]
    if not hexes:
        print("no concrete strings stored in the replay file; re-running the %s check" % r.get("tier", "quick"))
        return run(r.get("tier", "quick"))
    C.build_harness()
    d = C.run_dir("C08-replay")
    tr = os.path.join(d, "probe.ndjson")
    C.harness("filter-run", ["probe", tr] + hexes)
    out = os.path.join(d, "probe.out")
    res = C.tlc("TraceFilter", "TraceFilter.cfg", out, workers=1, env={"TRACE": tr}, timeout=300)
    if not res["ok"]:
        print("TOOL-ERROR property=C08 TraceFilter failed on the probe: %s" % res["error"])
        return 2
    bad = {int(x.strip()) for x in C.tagged_lines(out, "BADREC")}
    whys = {int(_unquote(x)["l"]): _unquote(x) for x in C.tagged_lines(out, "BADWHY")}
    rc = 0
    with open(tr) as f:
        for i, line in enumerate(f, 1):
            rec = json.loads(line)
            verdict = "accepted -> %s" % bytes(rec["ber"]).hex() if rec["ok"] else ("PANIC %s" % rec["panic"] if rec.get("panic") else "rejected")
            if rec.get("panic") or i in bad:
                rc = 1
                w = whys.get(i, {})
                print("  STILL VIOLATES  %-40s %s   [%s:%s]" % (show(rec["s"]), verdict, w.get("what", "panic"), w.get("top", "")))
            else:
                print("  ok              %-40s %s" % (show(rec["s"]), verdict))
    if rc:
        print("VIOLATION property=C08 replay=%s" % path)
    return rc
