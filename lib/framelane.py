"""Shared pieces of the framing lanes (C06, C11): spec/Framing.tla, MCFraming, MCHostile, TraceFraming, TraceHostile and
harness/src/bin/frame-run.rs."""
import json, os
import common as C

BIN = "frame-run"


def tlc_vectors(chk, module, cfg, out, timeout, workers=8):
    res = C.tlc(module, cfg, out, workers=workers, timeout=timeout, heap="6g")
    chk.model("%s/%s" % (module, cfg), res)
    return res


def run_report(chk, args, rep_path, source, timeout=900):
    C.harness(BIN, args + [rep_path], timeout=timeout)
    rep = C.load(rep_path)
    chk.report(rep, source)
    return rep


# ---- labels for records the trace specifications reject (the verdict itself is TLC's) ----
def e2e_expected(r):
    """chunk number that delivers the last octet of each message, from the run-length chunk list"""
    ends, off = [], 0
    for m in r["msgs"]:
        off += m["n"]
        ends.append(off)
    exp = []
    for e in ends:
        pos, idx, hit = 0, 0, 0
        for run in r["chunks"]:
            size, rep = run[0], run[1]
            if pos + size * rep >= e:
                hit = idx + (e - pos + size - 1) // size
                break
            pos += size * rep
            idx += rep
        exp.append(hit)
    return exp


def classify_e2e(r):
    try:
        exp = e2e_expected(r)
        got = []
        for i in range(1, len(r["msgs"]) + 1):
            js = [s[0] for s in r["steps"] if s[1] >= i]
            got.append(js[0] if js else 0)
        if r.get("late"):
            return "c06:e2e:delivery-after-the-stream-went-quiet"
        if any(g == 0 for g in got):
            return "c06:e2e:message-never-delivered"
        if any(g < e for g, e in zip(got, exp)):
            return "c06:e2e:early-delivery"
        if any(g > e for g, e in zip(got, exp)):
            return "c06:e2e:late-delivery"
        if r["steps"] and r["steps"][-1][1] != len(r["msgs"]):
            return "c06:e2e:extra-delivery"
        return "c06:e2e:wrong-order-or-content"
    except Exception:
        return "c06:e2e:unclassified"


PANIC_SLUGS = [("element", "missing-element"), ("message id", "msgid-not-integer"), ("components", "control-not-constructed"),
               ("octet string", "control-field-constructed"), ("decoding error", "control-component-unexpected"),
               ("result sequence", "controls-not-constructed")]


def panic_slug(msg):
    for m, s in PANIC_SLUGS:
        if msg == m:
            return s
    if msg.startswith("control type"):
        return "control-type-not-utf8"
    if msg.startswith("index out of bounds"):
        return "empty-criticality"
    return "".join(c.lower() if c.isalnum() else "-" for c in msg[:40]).strip("-")


def hostile_classifier(out_path, trace_path):
    """classify(record) for TraceHostile: the spec's verdict of a rejected record is on the WHY line TLC printed."""
    cache = {}

    def load():
        why = {}
        for raw in C.tagged_lines(out_path, "WHY"):
            parts = [p.strip().strip('"') for p in raw.split(",")]
            if len(parts) >= 3:
                why[int(parts[0])] = (parts[1], parts[2])
        with open(trace_path) as f:
            for i, line in enumerate(f, 1):
                if i in why:
                    cache[json.dumps(json.loads(line)["b"])] = why[i]

    def classify(r):
        if not cache:
            load()
        v, why = cache.get(json.dumps(r["b"]), ("?", "?"))
        if r["r"] == "panic":
            return "c11:decode:panic:" + panic_slug(r.get("panic", ""))
        if r["r"] == "none":
            return "c11:decode:inner-overrun-incomplete" if why == "ber" else "c11:decode:incomplete-on-complete-frame:%s" % (why or "well-formed")
        if v == "Bad" and r["r"] == "some":
            return "c11:decode:msgid-out-of-range-aliased" if why in ("msgid-too-large", "msgid-negative") else "c11:decode:accepted:" + why
        if v == "Msg" and r["r"] == "err":
            return "c11:decode:rejected-well-formed"
        if v == "Msg":
            return "c11:decode:content-differs"
        if v == "NeedMore":
            return "c11:decode:delivered-incomplete-frame"
        return "c11:decode:consumed-wrong-length"
    return classify
