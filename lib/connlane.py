"""The concurrent-connection lane shared by C01, C04, C05, C12, C13 (DESIGN.md sections 3.2, 4).

 (a) TLC model-checks the property's invariants on a bounded instance of spec/LdapConn.tla;
 (b) conn-run drives the real driver/handles/streams with seeded scenarios and records one event per spec action;
 (c) TraceLdapConn validates the recorded events against the same specification; every difference is a DIAG line
     with a tag, and each tag has an owner property. A check reports only the tags it owns; the others are NOTEs.
"""
import json, os, re
import common as C

# tag -> owning property (core:* are resolved by context, see owner_of)
TAG_OWNER = {
    "route": "C01", "alloc": "C05", "time": "C12", "quiet:more": "C13", "wire:abandon": "C13", "wire": ("C02", "C05"), "wire:id-range": "C05",
    "wire:missing:abandon": "C13", "quiet:pending": ("C13", "C12"), "wire:missing": "C02", "effect:lost-route": "C01",
    "effect:abandon": ("C13", "C01"), "effect:scrub": ("C12", "C13"), "stream": "C10", "close": "C04", "closed": "C04",
    "inv:Routing": ("C01", "C12"), "inv:NoLeak": "C13", "inv:UniqueIds": "C05", "inv:WireUnique": "C05", "inv:IdRange": "C05", "inv:Protected": "C05", "inv:RoutedProtected": "C05",
    "inv:TimeoutExact": "C12", "inv:FailFast": "C04", "inv:StreamOK": "C10",
}
FAULT_EVENTS = ("SrvClose", "SrvGarbage", "SrvBadDone", "DrvExit")

_DIAG = re.compile(r'^<<"DIAG", (\d+), (.*)>>$')


def parse_tag(raw):
    raw = raw.strip()
    m = re.match(r'^<<"(\w+)", "([\w:]+)">>$', raw)
    if m:
        return "%s:%s" % (m.group(1), m.group(2))
    return raw.strip('"')


def read_diags(out):
    seen = set()
    res = []
    with open(out, errors="replace") as f:
        for line in f:
            m = _DIAG.match(line.rstrip("\n"))
            if m:
                k = (int(m.group(1)), parse_tag(m.group(2)))
                if k not in seen:
                    seen.add(k)
                    res.append(k)
    return sorted(res)


def owner_of(tag, events, idx):
    """Owner of a diagnosis at 1-based event index idx (None = nobody: a difference no property forbids)."""
    own = _owner_of(tag, events, idx)
    if tag.startswith("core:") and own is not None:
        # an unexplained event while the first part of a response had been delivered and the rest not yet (profile `split`):
        # framing across reads is also C06's business
        j, seen_partial = idx - 2, False
        while j >= 0 and events[j].get("ev") != "Reset":
            if events[j].get("ev") == "SrvPartial":
                seen_partial = True
                break
            j -= 1
        if seen_partial:
            t = own if isinstance(own, tuple) else (own,)
            if "C06" not in t:
                own = t + ("C06",)
    return own


def _owner_of(tag, events, idx):
    if tag in TAG_OWNER:
        return TAG_OWNER[tag]          # a property id or a tuple of them
    # bookkeeping between quiescent points is bound by constraint only: a routing entry or ID reservation that outlives
    # the reference's but is gone at quiescence is not a leak (an implementation may release in finish() rather than on
    # SearchResultDone); what must not happen is caught by the invariants (NoLeak at every quiescent state, Protected,
    # UniqueIds) and by the accessor snapshot at the end of every scenario (quiet:more)
    if tag in ("xscrub", "book:less", "book:more", "quiet:less"):
        return None
    if tag.startswith("core:"):
        ev = events[idx - 1]
        what = tag[5:]
        # the stream protocol (next() outside Active, finish codes, panics inside stream calls) is C10's
        if what in ("CallNext", "Finish"):
            return "C10"
        if what == "RetNext" and ev.get("r") in ("noop", "done"):
            return "C10"
        if what in ("RetNext", "Inner"):
            # a return from next() that follows a call made outside Active is the stream protocol's business
            j = idx - 2
            while j >= 0 and events[j].get("ev") != "Reset":
                if events[j].get("o") == ev.get("o") and events[j].get("ev") == "CallNext":
                    if not events[j].get("active", True):
                        return "C10"
                    break
                j -= 1
        if what == "Panic":
            j = idx - 2
            base = None
            while j >= 0 and events[j].get("ev") != "Reset":
                if events[j].get("o") == ev.get("o"):
                    if base is None:
                        base = "C10" if events[j].get("ev") in ("CallNext", "RetNext", "Finish", "Inner") else "C04"
                    if events[j].get("ev") == "Call":
                        # a panic inside an operation that was given a timeout is also the timeout property's business
                        return (base, "C12") if events[j].get("t", 0) != 0 else base
                j -= 1
            return base or "C04"
        if what == "DrvOp":
            # the driver was handed a request under an ID the allocator never issued in this scenario (or issued to another
            # operation): what goes on the wire is not what was reserved - C05's, whatever else it breaks
            issued = set()
            j = idx - 2
            last_alloc = None
            while j >= 0 and events[j].get("ev") != "Reset":
                if events[j].get("ev") == "IdAlloc":
                    issued.add(events[j].get("id"))
                    if last_alloc is None:
                        last_alloc = events[j].get("id")
                j -= 1
            if ev.get("id") not in issued:
                return ("C05", "C01")
        if what in ("Hang", "DrvExit"):
            if what == "DrvExit":
                # the driver ended although the transport was never touched (no fault, no Unbind, handles alive): whatever made
                # it leave disturbed every other operation - C01's second sentence as much as C04's business
                j = idx - 2
                quiet = True
                while j >= 0 and events[j].get("ev") != "Reset":
                    x = events[j]
                    if x.get("ev") in ("SrvClose", "SrvGarbage", "SrvBadDone", "DropHandles") or (x.get("ev") == "DrvOp" and (x.get("k") == "unbind" or not x.get("ok", True))):
                        quiet = False
                        break
                    j -= 1
                if quiet:
                    return ("C04", "C01")
            return "C04"
        # an event no behaviour of the model explains: after a transport fault or driver exit it is about
        # termination/fail-fast (C04), a timeout return is about timeouts (C12), otherwise about routing (C01)
        j = idx - 1
        while j >= 0 and events[j].get("ev") != "Reset":
            if events[j].get("ev") == "DrvOp" and events[j].get("k") == "unbind":
                return "C04"            # what follows an Unbind is about closing the connection
            if events[j].get("ev") in FAULT_EVENTS:
                if "alias" in events[j]:
                    # what follows a response under an out-of-range message ID that aliases a live one is routing's business
                    return ("C01", "C11")
                return "C04"
            j -= 1
        if ev.get("r") == "timeout":
            return "C12"
        return "C01"
    return "C01"


def _own_str(o):
    return "no property" if o is None else ("/".join(o) if isinstance(o, tuple) else o)


def scenario_of(events, idx):
    """(seed, index within scenario, first event index of scenario) for 1-based idx."""
    j = idx - 1
    while j > 0 and events[j].get("ev") != "Reset":
        j -= 1
    return events[j].get("seed"), idx - 1 - j, j


# ---- behaviour coverage: what the validated traces actually contained (vacuity guard)
NEED = {
    "C01": ["recv:result", "recv:search", "recv:none", "ret:val", "next:item", "overlap:two-waiting", "orphan"],
    "C04": ["close:eof", "close:reset", "close:wfail", "garbage", "exit:exitErr", "exit:exitOk", "ret:err", "next:closed",
            "ret:err-at-once", "unbind", "fault-while-waiting", "baddone", "garbage:open"],
    "C05": ["alloc", "alloc:wrap", "recv:result"],
    "C10": ["next:item", "next:done", "next:noop", "next:aderr", "finish:early", "finish:full"],
    "C12": ["ret:timeout", "next:timeout", "scrub", "late-reply", "ok-after-timeout", "timeout-while-blocked",
            "timeout-before-dequeue", "item-then-timeout"],
    "C13": ["quiet", "abandon", "abandon:in-flight", "finish:early", "scrub", "ret:timeout", "caller-gone", "next:aderr"],
}


def behaviour_coverage(events, cov):
    """One pass over a validated trace: count the behaviours the properties speak about."""
    ids, waiting, timed_out, blocked, got_item, unsent = {}, set(), set(), False, set(), set()
    pend_o = None
    faulted = False
    for e in events:
        ev = e["ev"]
        if ev == "Reset":
            ids, waiting, timed_out, blocked, got_item, unsent = {}, set(), set(), False, set(), set()
            faulted = False
        elif ev == "Call":
            pend_o = e["o"]
            if e["k"] == "unbind":
                cov["unbind"] += 1
        elif ev == "IdAlloc":
            cov["alloc"] += 1
            if e["id"] <= e["lastb"]:
                cov["alloc:wrap"] += 1
            elif e["id"] > e["lastb"] + 1:
                cov["alloc:skip"] += 1
            if pend_o is not None:
                ids[pend_o] = e["id"]
                if waiting:
                    cov["overlap:two-waiting"] += 1
                waiting.add(pend_o)
                unsent.add(e["id"])
                pend_o = None
        elif ev == "Ret":
            cov["ret:" + e["r"]] += 1
            o = e["o"]
            if e["r"] == "err" and o in waiting and ids.get(o) in unsent and faulted:
                cov["ret:err-at-once"] += 1
            waiting.discard(o)
            if e["r"] == "timeout":
                timed_out.add(ids.get(o))
                if blocked:
                    cov["timeout-while-blocked"] += 1
                if ids.get(o) in unsent:
                    cov["timeout-before-dequeue"] += 1
            if e["r"] == "val" and timed_out:
                cov["ok-after-timeout"] += 1
        elif ev == "RetNext":
            cov["next:" + e["r"]] += 1
            if e["r"] == "item":
                got_item.add(e["o"])
            if e["r"] == "timeout":
                timed_out.add(ids.get(e["o"]))
                if e["o"] in got_item:
                    cov["item-then-timeout"] += 1
        elif ev == "Finish":
            cov["finish:early" if e.get("rc") == 88 else "finish:full"] += 1
        elif ev == "DrvOp":
            unsent.discard(e["id"])
            blocked = False
            if not e.get("ok", True):
                cov["send-failed"] += 1
            if e["k"] == "abandon":
                cov["abandon"] += 1
                if e["tg"] in [ids.get(o) for o in waiting]:
                    cov["abandon:in-flight"] += 1
        elif ev == "DrvRecv":
            cov["recv:" + str(e["k"])] += 1
            if e["k"] == "none" and e["id"] in timed_out:
                cov["late-reply"] += 1
        elif ev == "DrvScrub":
            cov["scrub"] += 1
        elif ev == "IdRelease" and e.get("site") == "caller-gone":
            cov["caller-gone"] += 1
        elif ev == "WBlocked":
            blocked = True
            cov["blocked"] += 1
        elif ev in ("SrvResume",):
            blocked = False
        elif ev == "SrvClose":
            cov["close:" + e["how"]] += 1
            blocked = False
            if e["how"] != "eof" or waiting:
                faulted = True
            if waiting and e["how"] in ("eof", "reset"):
                cov["fault-while-waiting"] += 1
        elif ev == "SrvGarbage":
            cov["garbage"] += 1
            if e.get("open"):
                cov["garbage:open"] += 1
            faulted = True
            blocked = False
        elif ev == "SrvOrphan":
            cov["orphan"] += 1
        elif ev == "SrvBadDone":
            cov["baddone"] += 1
            faulted = True
        elif ev == "DrvExit":
            cov["exit:" + e["how"]] += 1
        elif ev == "Quiet":
            cov["quiet"] += 1
        elif ev in ("Hang", "Panic"):
            cov[ev.lower()] += 1


def gen_traces(chk, profile_counts, first_seed):
    """Run conn-run for each (profile, count); returns list of (profile, path, report)."""
    out = []
    seed = first_seed
    for prof, n in profile_counts:
        p = os.path.join(chk.dir, "trace-%s.ndjson" % prof)
        r = os.path.join(chk.dir, "gen-%s.json" % prof)
        C.harness("conn-run", ["random", p, seed, n, prof, r], timeout=1200)
        rep = C.load(r)
        out.append((prof, p, rep, seed))
        seed += n
    return out


def validate(chk, path, cfg="TraceLdapConn.cfg", timeout=900):
    out = path + ".tlc"
    res = C.tlc("TraceLdapConn", cfg, out, workers=1, env={"TRACE": path}, timeout=timeout, dfs=True, heap="6g")
    n = sum(1 for _ in open(path))
    if not res["ok"] or res["depth"] != n + 1:
        raise C.ToolError("TraceLdapConn did not consume %s (depth %s of %s events): %s\n%s"
                          % (path, res["depth"], n, res["error"], res.get("tail", "")[-1500:]))
    return n, read_diags(out), res


def gen_script_traces(chk, gencfg, keep):
    """S -> I: TLC (GenConn) enumerates every environment script of the given length in quiescent-step semantics; conn-run
    executes a seeded sample of the distinct scripts against the real code and records the events."""
    out = os.path.join(chk.dir, "gen-" + gencfg + ".out")
    res = C.tlc("GenConn", gencfg, out, workers=6, timeout=1800)
    chk.model("GenConn/" + gencfg, res)
    p = os.path.join(chk.dir, "trace-scripts-%s.ndjson" % gencfg[:-4])
    r = os.path.join(chk.dir, "gen-scripts-%s.json" % gencfg[:-4])
    C.harness("conn-run", ["script", out, p, keep, r], timeout=1800)
    os.remove(out)
    rep = C.load(r)
    rep["lane"] = "conn-script(%s, 1 in %d)" % (gencfg, keep)
    return ("scripts:" + gencfg[:-4], p, rep, 0)


def must_fail(chk, flag, cfg, invariant):
    """Non-vacuity of an invariant: the instance of LdapConn with one named deviation of the pinned code switched on (the model of
    a defect that was found and fixed) must violate it."""
    out = os.path.join(chk.dir, "dev-%s.out" % flag)
    res = C.tlc("MCLdapConn", cfg, out, workers=4, timeout=600)
    got = res.get("violated")
    chk.extra.setdefault("deviation_instances", []).append(dict(deviation=flag, cfg=cfg, expected=invariant, violated=got,
                                                                distinct=res["distinct"], wall_s=round(res["wall"], 1)))
    if got != invariant:
        chk.tool_error("deviation instance %s (%s) was expected to violate %s, TLC says: %s / %s"
                       % (flag, cfg, invariant, got, res.get("error")))
    if os.path.exists(out):
        os.remove(out)


def run_lane(pid, tier, mc, profiles, rule, selftests, assumptions=(), extra=None, scripts=None):
    """mc: list of (name, module, cfg, timeout, workers); profiles: list of (profile, count)."""
    chk = C.Check(pid, "model_checking", tier)
    C.build_harness()
    lane_into(chk, pid, mc, profiles, rule, selftests, scripts=scripts)
    if extra:
        extra(chk)
    chk.assumptions += ["TLC and the CommunityModules Json reader are correct",
                        "Tokio's current-thread scheduler, paused clock and seeded select! behave as documented",
                        "the hooks sit at the linearization points named in DESIGN.md 4.1 (checked by the corruption self-tests)",
                        "the scripted server and mock transport of the harness are correct"] + list(assumptions)
    return chk.finish()


def lane_into(chk, pid, mc, profiles, rule, selftests, scripts=None):
    """The connection lane proper, reporting into an existing Check (used by C10 in addition to its own lane)."""
    for name, module, cfg, tmo, workers in mc:
        res = C.tlc(module, cfg, os.path.join(chk.dir, name + ".out"), workers=workers, timeout=tmo)
        chk.model(name + "/" + cfg, res)
    first_seed = C.seed() * 100000 + 1
    traces = gen_traces(chk, profiles, first_seed)
    for scripts in ([scripts] if isinstance(scripts, tuple) else (scripts or [])):
        traces.append(gen_script_traces(chk, scripts[0], scripts[1]))
        chk.rule.append("S->I: every environment script of %s (TLC, quiescent-step semantics: start/next/finish/server message/"
                        "orphan/tick/fault/peer-stops-reading/peer-reads-again stimuli, a stimulus only when no internal step is enabled), a seeded 1-in-%d sample of the "
                        "distinct scripts executed against the real code and validated like any other trace" % scripts)
    total_events = 0
    clean_first = True
    import collections
    cov = collections.Counter()
    for tn, (prof, path, rep, seed0) in enumerate(traces):
        chk.report(rep, "conn-run %s" % prof)
        n, diags, res = validate(chk, path)
        total_events += n
        nscen = rep["evaluations"]
        chk.traces += nscen
        events = [json.loads(l) for l in open(path)]
        behaviour_coverage(events, cov)
        if tn == 0 and diags:
            clean_first = False
        owned, foreign = {}, {}
        for idx, tag in diags:
            own = owner_of(tag, events, idx)
            mine = own == pid or (isinstance(own, tuple) and pid in own)
            (owned if mine else foreign).setdefault(tag, []).append(idx)
        chk.extra.setdefault("trace_validation", []).append(
            dict(profile=prof, scenarios=nscen, events=n, diag_owned={k: len(v) for k, v in owned.items()},
                 diag_foreign={k: len(v) for k, v in foreign.items()}, wall_s=round(res["wall"], 1)))
        for tag, idxs in sorted(owned.items()):
            cases = []
            for idx in idxs[:3]:
                sd, k, j0 = scenario_of(events, idx)
                cases.append(dict(profile=prof, seed=sd, event_index=k, event=events[idx - 1],
                                  before=events[max(j0, idx - 7):idx - 1]))
            chk.problem("trace:" + tag, dict(count=len(idxs), cases=cases), "I->S: TraceLdapConn on conn-run %s" % prof)
        for tag, idxs in sorted(foreign.items()):
            sd, k, _ = scenario_of(events, idxs[0])
            chk.notes.append("difference owned by %s (not this property): %s x%d, first at profile=%s seed=%s event=%d"
                             % (_own_str(owner_of(tag, events, idxs[0])), tag, len(idxs), prof, sd, k))
    chk.extra["events_validated"] = total_events
    chk.extra["behaviour_coverage"] = dict(sorted(cov.items()))
    missing = [k for k in NEED.get(pid, []) if cov[k] == 0]
    if missing and not chk.problems and scripts:
        # (without the script traces - C10's use of the lane - the lane is an addition, not the property's own evidence)
        chk.tool_error("the validated traces never contained: %s (vacuous for %s)" % (", ".join(missing), pid))
    chk.rule.append(rule)
    # binding self-tests on the first trace
    if traces:
        _, path, _, _ = traces[0]
        if clean_first:
            for name, fn, expect in selftests:
                run_selftest(chk, path, name, fn, expect)
        else:
            chk.notes.append("binding self-test skipped: the unmodified trace already differs from the model")


def run_selftest(chk, path, name, fn, expect_tag):
    """Corrupt the recorded trace with fn(events) -> events|None; TraceLdapConn must report expect_tag."""
    events = [json.loads(l) for l in open(path)]
    # restrict to the first scenarios to keep it fast
    cut = len(events)
    resets = [i for i, e in enumerate(events) if e.get("ev") == "Reset"]
    if len(resets) > 40:
        cut = resets[40]
    ev2 = fn(events[:cut])
    if ev2 is None:
        chk.tool_error("selftest %s: nothing to corrupt" % name)
        return
    p = os.path.join(chk.dir, "selftest-%s.ndjson" % name)
    with open(p, "w") as f:
        for e in ev2:
            f.write(json.dumps(e) + "\n")
    try:
        n, diags, _ = validate(chk, p, timeout=300)
    except C.ToolError as e:
        chk.tool_error("selftest %s: %s" % (name, e))
        return
    tags = {t for _, t in diags}
    want = expect_tag if isinstance(expect_tag, tuple) else (expect_tag,)
    ok = any(t == w or t.startswith(w) for t in tags for w in want)
    chk.extra.setdefault("binding_selftest", []).append(dict(name=name, expected=expect_tag, reported=sorted(tags), rejected=ok))
    if not ok:
        chk.tool_error("selftest %s: corrupted trace was accepted (expected a %s difference, got %s)" % (name, expect_tag, sorted(tags)))


# ---- corruptions used by the self-tests
def corrupt_token(events):
    for e in events:
        if e.get("ev") == "Ret" and e.get("r") == "val":
            e["tok"] += 1
            return events
    return None


def corrupt_alloc(events):
    for e in events:
        if e.get("ev") == "IdAlloc" and e["id"] > 1:
            e["id"] += 1
            # keep the rest consistent with the shifted ID? no: the point is that the allocator law rejects it
            return events
    return None


def corrupt_snapshot(events):
    """In every scenario an ID that is released in reality stays reserved in every later snapshot (a simulated leak)."""
    leak, any_leak = None, False
    for e in events:
        if e.get("ev") == "Reset":
            leak = None
        if leak is None and e.get("ev") == "DrvRecv" and e.get("k") == "result":
            leak = e["id"]
            any_leak = True
        if leak is not None:
            if "s" in e:
                e["s"]["used"] = sorted(set(e["s"]["used"]) | {leak})
            if e.get("ev") == "Quiet":
                e["used"] = sorted(set(e["used"]) | {leak})
    return events if any_leak else None


def corrupt_time(events):
    """The call of an operation that later times out claims a timeout one tick longer: its Timeout return then comes
    before the model's deadline."""
    for i, e in enumerate(events):
        if e.get("ev") == "Ret" and e.get("r") == "timeout":
            for j in range(i - 1, -1, -1):
                c = events[j]
                if c.get("ev") == "Reset":
                    break
                if c.get("ev") == "Call" and c.get("o") == e.get("o") and c.get("t", 0) > 0:
                    c["t"] += 1
                    return events
    return None


def corrupt_failfast(events):
    seen_exit = False
    for e in events:
        if e.get("ev") == "Reset":
            seen_exit = False
        if e.get("ev") == "DrvExit":
            seen_exit = True
        if seen_exit and e.get("ev") == "Ret" and e.get("r") == "err":
            e["r"] = "val"
            e["tok"] = 1
            return events
    return None


def replay(pid, path, run):
    r = C.load(path)
    print("replay of %s (%s): re-running the quick check with the recorded seed %s" % (path, r.get("key"), r.get("seed")))
    os.environ["VERIF_SEED"] = str(r.get("seed", 1))
    return run("quick")
